#!/bin/bash
# usage: run.sh <ID> <quick|thorough> [extra mc args]
# Rebuilds the checker against /repo's CURRENT working tree (go.mod replace => /repo) and runs one check.
set -u
cd "$(dirname "$0")"
export GOFLAGS=-mod=mod GOPROXY=off GOSUMDB=off GOTOOLCHAIN=local GOCACHE=/verif/.gocache
ID="$1"; TIER="${2:-${VERIF_TIER:-quick}}"; shift; shift || true
mkdir -p /verif/bin /verif/evidence /verif/replays
BIN=/verif/bin/mc.$$
( cd /verif/mc && cp -f /repo/go.sum go.sum 2>/dev/null; go build -o "$BIN" . ) || { echo "BUILD FAILED (harness or /repo does not compile)"; exit 2; }
RACE=""
if [ "$ID" = "C04" ]; then
  # free-running concurrency pass under the race detector (supplement to the exhaustive interleaving search)
  RACE=/verif/bin/race.$$
  ( cd /verif/race && cp -f /repo/go.sum go.sum 2>/dev/null; go build -race -o "$RACE" . ) || { echo "BUILD FAILED (race harness)"; rm -f "$BIN"; exit 2; }
  export VERIF_RACE_BIN="$RACE"
fi
"$BIN" check "$ID" --tier "$TIER" "$@"
rc=$?
rm -f "$BIN" $RACE
exit $rc
