#!/bin/bash
# usage: run.sh <ID> <quick|thorough> [extra mc args]   |   run.sh replay <file>
# Rebuilds the checker against /repo's CURRENT working tree (go.mod replace => /repo) and runs one check
# (or replays one recorded violation). For C04 (and replays) the package-level state of /repo is audited
# first (/verif/instr); if a package-level variable is written after init(), the checker is built with the
# generated scheduling-point overlay (-overlay ... -tags verifhook) so that in-call preemptions are explored.
set -u
cd "$(dirname "$0")"
export GOFLAGS=-mod=mod GOPROXY=off GOSUMDB=off GOTOOLCHAIN=local GOCACHE=/verif/.gocache
ID="$1"; TIER="${2:-${VERIF_TIER:-quick}}"; shift; shift || true
mkdir -p /verif/bin /verif/evidence /verif/replays
BIN=/verif/bin/mc.$$
BUILDARGS=""
if [ "$ID" = "C04" ] || [ "$ID" = "replay" ]; then
  ( cd /verif/instr && go build -o /verif/bin/instr.$$ . ) || { echo "BUILD FAILED (instr)"; exit 2; }
  /verif/bin/instr.$$ /repo /verif/.overlay > /verif/.overlay.log 2>&1 || { cat /verif/.overlay.log; echo "BUILD FAILED (package-state audit of /repo)"; rm -f /verif/bin/instr.$$; exit 2; }
  rm -f /verif/bin/instr.$$
  if ! grep -q '"Replace": {}' /verif/.overlay/overlay.json; then
    BUILDARGS="-overlay /verif/.overlay/overlay.json -tags verifhook"
  fi
fi
( cd /verif/mc && cp -f /repo/go.sum go.sum 2>/dev/null; go build $BUILDARGS -o "$BIN" . ) || { echo "BUILD FAILED (harness or /repo does not compile)"; exit 2; }
RACE=""
if [ "$ID" = "C04" ] || [ "$ID" = "replay" ]; then
  # free-running concurrency pass under the race detector (supplement to the exhaustive interleaving searches)
  RACE=/verif/bin/race.$$
  ( cd /verif/race && cp -f /repo/go.sum go.sum 2>/dev/null; go build -race -o "$RACE" . ) || { echo "BUILD FAILED (race harness)"; rm -f "$BIN"; exit 2; }
  export VERIF_RACE_BIN="$RACE"
fi
if [ "$ID" = "replay" ]; then
  "$BIN" replay "$TIER" "$@"
else
  "$BIN" check "$ID" --tier "$TIER" "$@"
fi
rc=$?
rm -f "$BIN" $RACE
exit $rc
