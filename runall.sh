#!/bin/bash
# usage: runall.sh [quick|thorough] [IDs...] : runs the listed (default: all) checks, prints one line each
TIER="${1:-quick}"; shift
IDS="$@"; [ -z "$IDS" ] && IDS="C01 C02 C03 C04 C05 C06 C07 C08 C09 C10 C11 C12 C13 C14 C15 C16 C17 C18 C19 C20"
cd /verif
rc_all=0
for c in $IDS; do
  s=$(date +%s)
  ./run.sh $c $TIER > /tmp/runall_$c.log 2>&1; rc=$?
  e=$(date +%s)
  echo "$c rc=$rc $((e-s))s $(grep -c '^VIOLATION' /tmp/runall_$c.log) violations, $(grep -c '^KNOWN-FINDING' /tmp/runall_$c.log) known | $(tail -1 /tmp/runall_$c.log | cut -c1-160)"
  [ $rc -ne 0 ] && rc_all=1
done
exit $rc_all
