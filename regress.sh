#!/bin/bash
# Replays every recorded violation of a since-fixed defect (regress/*.json) on /repo's current tree:
# each must no longer occur (exit 0 per file). Exit 1 if any recorded defect is back.
cd "$(dirname "$0")"
export GOFLAGS=-mod=mod GOPROXY=off GOSUMDB=off GOTOOLCHAIN=local GOCACHE=/verif/.gocache
( cd mc && go build -o /verif/bin/mc.regress . ) || exit 2
bad=0; n=0
for f in regress/*.json; do
  n=$((n+1))
  if ! /verif/bin/mc.regress replay "$f" > /tmp/regress.out 2>&1; then
    echo "BACK: $f"; grep '^replay:' /tmp/regress.out | head -2; bad=$((bad+1))
  fi
done
rm -f /verif/bin/mc.regress
echo "regress: $n recorded violations replayed, $bad still occur"
[ $bad -eq 0 ]
