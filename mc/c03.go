package main

import (
	"os"
	"time"
)

var c03Probes = bs(" ", "\t", "\r", "\n", "\r\n ", "\r\n\t", "\n ", "1", "\"", ",", ";", ":", "=", "a", "\r\n\r\n", "<", ">")

// exploreSpacesProbe: like exploreSpaces, adding the C03 continuation probes to fragment spaces.
func withProbes(sps []space) []space {
	out := make([]space, len(sps))
	copy(out, sps)
	return out
}

func checkC03(r *Run) {
	r.Assume = []string{"flag sets containing POptInputEndF / SIPMsgNoMoreDataF are exempt by the property and not run",
		"for a message without Content-Length under neither skip-body nor CLen-required the body extent (Body, RawMsg, Buf, returned offset) is exempt",
		"extensions: every trie child (transitively every extension inside the trie) plus the probe continuations " + "SP HT CR LF CRLF-SP CRLF-HT LF-SP digit quote , ; : = token CRLFCRLF < > below every definitive node"}
	or := Oracles{Extension: true}
	if os.Getenv("VERIF_C03_ONLY_BIG") != "" { // development aid: only the last part
		mor := or
		mor.ExemptCase = msgNoCLenExempt
		mor.ExemptObs = msgBodyLines
		c03Big(r, mor)
		return
	}
	probeAll = c03Probes
	defer func() { probeAll = nil }()
	runAllDrivers(r, or)
	mor := or
	mor.ExemptCase = msgNoCLenExempt
	mor.ExemptObs = msgBodyLines
	exploreSpaces(r, msgDrv, msgSpaces(r), mor, nil)
	c03Big(r, mor)
}

func init() {
	register("C03", &checkDef{fn: checkC03,
		rule:        "for every trie node whose one-shot verdict is definitive: the one-shot result on every child prefix and on the prefix extended by each probe continuation must have the same verdict, offset and caller-visible values; transitions = extension pairs executed on the real code; non-trivial = input with a suspension and a definitive verdict on its path",
		quickBudget: 240 * time.Second, thorBudget: 30 * time.Minute})
}
