package main

import (
	"fmt"
	"math/big"
	"strings"
	"time"

	"github.com/intuitivelabs/sipsp"
)

var (
	bigU32  = new(big.Int).SetUint64(1<<32 - 1)
	big2p24 = new(big.Int).SetUint64(1 << 24)
	bigPort = new(big.Int).SetUint64(65535)
)

func bigOf(d []byte) *big.Int {
	v, ok := new(big.Int).SetString(string(d), 10)
	if !ok {
		return nil
	}
	return v
}

func numClass(v *big.Int, d []byte) string {
	switch {
	case v.BitLen() > 64:
		if len(d) > 20 {
			return ">64bit,>20digits"
		}
		return ">64bit"
	case v.BitLen() > 32:
		return "33..64bit"
	case v.Cmp(big2p24) > 0:
		return "2^24..2^32"
	case v.Cmp(bigPort) > 0:
		return "2^16..2^24"
	}
	return "<=65535"
}

// evalC10 checks one digit string in one numeric position (one-shot).
func evalC10(pos string, d []byte) (vs []*Violation) {
	add := func(site, rule, class, detail string) {
		c := mkCase("C10", site, nil, d, nil)
		c.Extra = map[string]any{"pos": pos}
		vs = append(vs, &Violation{Property: "C10", Site: site, Rule: rule, Class: class, Detail: detail, Case: c})
	}
	defer recoverTo4("library-call", add)
	v := bigOf(d)
	if v == nil {
		return
	}
	cl := numClass(v, d)
	switch pos {
	case "cseq":
		// the number is followed by method names with and without digits: digits of the method never count
		for mi, mth := range []string{"INVITE", "FOO2BAR", "M1", "X007", "P2P", "A6"} {
			buf := append(append(append([]byte(nil), d...), ' '), mth...)
			buf = append(buf, "\r\nX"...)
			var b sipsp.PCSeqBody
			_, e := sipsp.ParseCSeqVal(buf, 0, &b)
			mc := cl
			if mi > 0 {
				mc += "/method-with-digits"
			}
			if e == 0 {
				f := bigOf(b.CSeq.Get(buf))
				if f == nil || new(big.Int).SetUint64(uint64(b.CSeqNo)).Cmp(f) != 0 || f.Cmp(v) != 0 {
					add("ParseCSeqVal", "value-equals-digit-string", mc, fmt.Sprintf("%q: CSeq %q reported as %d", buf, b.CSeq.Get(buf), b.CSeqNo))
				}
				if string(b.Method.Get(buf)) != mth {
					add("ParseCSeqVal", "value-equals-digit-string", mc+"/method", fmt.Sprintf("%q: method %q", buf, b.Method.Get(buf)))
				}
			} else if e == sipsp.ErrHdrMoreBytes {
				add("ParseCSeqVal", "definitive", mc, "more-bytes on complete header")
			} else if v.Cmp(bigU32) <= 0 && len(d) <= 10 {
				add("ParseCSeqVal", "in-range-accepted", mc, fmt.Sprintf("%q rejected: %v", buf, e))
			}
			if v.Cmp(bigU32) > 0 && e == 0 {
				add("ParseCSeqVal", "out-of-range-rejected", mc, fmt.Sprintf("CSeq %s accepted (value %d)", d, b.CSeqNo))
			}
		}
	case "clen", "expires":
		buf := append(append([]byte(nil), d...), "\r\nX"...)
		var b sipsp.PUIntBody
		var e sipsp.ErrorHdr
		site := "ParseCLenVal"
		lim := big2p24
		if pos == "clen" {
			_, e = sipsp.ParseCLenVal(buf, 0, &b)
		} else {
			site = "ParseExpiresVal"
			lim = bigU32
			_, e = sipsp.ParseExpiresVal(buf, 0, &b)
		}
		if e == 0 {
			f := bigOf(b.SVal.Get(buf))
			if f == nil || new(big.Int).SetUint64(uint64(b.UIVal)).Cmp(f) != 0 {
				add(site, "value-equals-digit-string", cl, fmt.Sprintf("%q reported as %d", b.SVal.Get(buf), b.UIVal))
			}
			if v.Cmp(lim) > 0 || (pos == "clen" && len(d) > 9) {
				add(site, "out-of-range-rejected", cl, fmt.Sprintf("%s accepted (value %d)", d, b.UIVal))
			}
		}
	case "c-expires":
		buf := append(append([]byte("<sip:a@b>;expires="), d...), "\r\nX"...)
		var b sipsp.PFromBody
		_, e := sipsp.ParseOneContact(buf, 0, &b)
		if e != 0 {
			add("ParseOneContact", "well-formed-accepted", cl, fmt.Sprintf("verdict %v", e))
			break
		}
		want := v
		if v.Cmp(bigU32) > 0 {
			want = bigU32
		}
		if !b.HasExpires || new(big.Int).SetUint64(uint64(b.Expires)).Cmp(want) != 0 {
			add("ParseOneContact", "expires-exact-or-saturated", cl, fmt.Sprintf("expires=%s reported as %d (HasExpires=%v), want %s", d, b.Expires, b.HasExpires, want))
		}
	case "q-int":
		buf := append(append([]byte("<sip:a@b>;q="), d...), "\r\nX"...)
		var b sipsp.PFromBody
		_, e := sipsp.ParseOneContact(buf, 0, &b)
		if e != 0 {
			add("ParseOneContact", "well-formed-accepted", cl, fmt.Sprintf("verdict %v", e))
			break
		}
		if v.Cmp(big.NewInt(1)) <= 0 {
			if uint64(b.Q) != v.Uint64()*1000 || b.ParamErr != 0 {
				add("ParseOneContact", "q-exact", cl, fmt.Sprintf("q=%s reported as Q=%d ParamErr=%v", d, b.Q, b.ParamErr))
			}
		} else {
			if b.Q != 0 {
				add("ParseOneContact", "q-out-of-range-unset", cl, fmt.Sprintf("q=%s reported as Q=%d", d, b.Q))
			} else if b.ParamErr == 0 {
				add("ParseOneContact", "q-out-of-range-flagged", cl, fmt.Sprintf("q=%s: Q unset but ParamErr not set", d))
			}
		}
	case "port", "port-user", "port-params", "port-hdrs", "port-digitpass", "port-digitpass6", "port-numpass", "port-userparam", "port-tel", "port-bigpass", "port-bigpass-x", "port-bigpass0":
		var s string
		switch pos {
		case "port-bigpass": // a password that looks like a port above 65535
			s = "sip:alice:123456@example.com:" + string(d)
		case "port-bigpass-x":
			s = "sip:u:65536x@h:" + string(d)
		case "port-bigpass0":
			s = "sips:u:00099999@[::1]:" + string(d) + ";lr"
		case "port-digitpass":
			s = "sip:alice:1a@example.com:" + string(d)
		case "port-digitpass6":
			s = "sips:u:65535x@[::1]:" + string(d) + ";lr"
		case "port-numpass":
			s = "sip:u:123@h:" + string(d)
		case "port-userparam":
			s = "sip:u;x=1:9z@h:" + string(d) + "?a=1"
		case "port-tel":
			s = "SIP:7:8@9:" + string(d)
		case "port":
			s = "sip:h:" + string(d)
		case "port-user":
			s = "sip:u@h:" + string(d)
		case "port-params":
			s = "sip:h:" + string(d) + ";p=1"
		case "port-hdrs":
			s = "sips:u:p@h:" + string(d) + "?x=1"
		}
		var u sipsp.PsipURI
		e, _ := sipsp.ParseURI([]byte(s), &u)
		if e == 0 {
			f := bigOf(u.Port.Get([]byte(s)))
			if f == nil || new(big.Int).SetUint64(uint64(u.PortNo)).Cmp(f) != 0 {
				add("ParseURI", "value-equals-digit-string", cl, fmt.Sprintf("%s: port %q reported as %d", pos, u.Port.Get([]byte(s)), u.PortNo))
			}
			if v.Cmp(bigPort) > 0 {
				add("ParseURI", "out-of-range-rejected", cl, fmt.Sprintf("%s: port %s accepted (PortNo %d)", pos, d, u.PortNo))
			}
		} else if v.Cmp(bigPort) <= 0 {
			add("ParseURI", "in-range-accepted", cl, fmt.Sprintf("%s: port %s rejected: %v", pos, d, e))
		}
	case "parsecmp-reuse":
		// the URIs handed back by URIParseCmp into structures the caller has used before
		s1, s2 := []byte("sip:h:"+string(d)), []byte("sip:g")
		var r1, r2 sipsp.PsipURI
		sipsp.ParseURI([]byte("sips:x:y@z:5061;p=1?h=2"), &r1)
		r2 = r1
		_, e, _ := sipsp.URIParseCmp(s1, s2, 0, &r1, &r2)
		if e == 0 {
			f := bigOf(safeGet(s1, r1.Port))
			if f == nil || new(big.Int).SetUint64(uint64(r1.PortNo)).Cmp(f) != 0 {
				add("URIParseCmp", "value-equals-digit-string", cl, fmt.Sprintf("r1: port %q reported as %d", safeGet(s1, r1.Port), r1.PortNo))
			}
			if r2.PortNo != 0 || r2.Port.Len != 0 {
				add("URIParseCmp", "value-equals-digit-string", "port-less", fmt.Sprintf("r2 (sip:g): Port %v PortNo %d", r2.Port, r2.PortNo))
			}
		}
	case "port-v6-backtrack", "port-v6-backtrack-h":
		s := "sip:[::1]:1;x@host:" + string(d)
		if pos == "port-v6-backtrack-h" {
			s = "sips:[::2]:90?x@[::3]:" + string(d) + ";p"
		}
		var u sipsp.PsipURI
		e, _ := sipsp.ParseURI([]byte(s), &u)
		if e == 0 {
			f := bigOf(u.Port.Get([]byte(s)))
			if f == nil || new(big.Int).SetUint64(uint64(u.PortNo)).Cmp(f) != 0 {
				add("ParseURI", "value-equals-digit-string", cl+"/after-user-backtrack", fmt.Sprintf("%s: port %q reported as %d", s, u.Port.Get([]byte(s)), u.PortNo))
			}
			if v.Cmp(bigPort) > 0 {
				add("ParseURI", "out-of-range-rejected", cl, fmt.Sprintf("%s: port %s accepted (PortNo %d)", pos, d, u.PortNo))
			}
		} else if v.Cmp(bigPort) <= 0 {
			add("ParseURI", "in-range-accepted", cl+"/after-user-backtrack", fmt.Sprintf("%s rejected: %v", s, e))
		}
	case "status":
		if len(d) != 3 {
			return
		}
		buf := []byte("SIP/2.0 " + string(d) + " OK\r\n")
		var fl sipsp.PFLine
		_, e := sipsp.ParseFLine(buf, 0, &fl)
		if e != 0 {
			add("ParseFLine", "well-formed-accepted", "status", fmt.Sprintf("verdict %v", e))
		} else if uint64(fl.Status) != v.Uint64() || string(fl.StatusCode.Get(buf)) != string(d) {
			add("ParseFLine", "value-equals-digit-string", "status", fmt.Sprintf("status %s reported as %d", d, fl.Status))
		}
	}
	return
}

// evalC10q checks a q value with a fractional part.
func evalC10q(s []byte) (vs []*Violation, valid bool) {
	add := func(rule, class, detail string) {
		c := mkCase("C10", "ParseOneContact", nil, s, nil)
		c.Extra = map[string]any{"pos": "q"}
		vs = append(vs, &Violation{Property: "C10", Site: "ParseOneContact", Rule: rule, Class: class, Detail: detail, Case: c})
	}
	defer recoverTo3(add)
	str := string(s)
	if strings.Count(str, ".") > 1 || len(str) == 0 {
		return
	}
	ip, fp := str, ""
	hasDot := false
	if i := strings.IndexByte(str, '.'); i >= 0 {
		ip, fp, hasDot = str[:i], str[i+1:], true
	}
	for _, c := range ip + fp {
		if c < '0' || c > '9' {
			return
		}
	}
	if ip == "" && fp == "" {
		return // "." alone: not a number
	}
	iv := new(big.Int)
	if ip != "" {
		iv.SetString(ip, 10)
	}
	fv := new(big.Int)
	if fp != "" {
		fv.SetString(fp, 10)
	}
	inRange := len(fp) <= 3 && (iv.Sign() == 0 || (iv.Cmp(big.NewInt(1)) == 0 && fv.Sign() == 0))
	_ = hasDot
	// the q parameter alone, and next to other parameters of the same contact (before / after an expires parameter with
	// an ordinary or a saturating value, between value-less parameters): what is reported for q does not depend on them
	for _, lay := range []struct {
		name, pre, post string
		exp             uint32
	}{{"", "", "", 0}, {"/then-expires", "", ";expires=60", 60}, {"/after-expires", ";expires=60", "", 60}, {"/then-x-and-big-expires", "", ";x=1;expires=4294967296", 4294967295},
		{"/between-flags", ";x", ";lr", 0}, {"/then-expires-in-next-contact", "", " , <sip:c@d>;expires=7", 0}} {
		buf := []byte("<sip:a@b>" + lay.pre + ";q=" + str + lay.post + "\r\nX")
		var b sipsp.PFromBody
		_, e := sipsp.ParseOneContact(buf, 0, &b)
		if e != 0 && !(e == sipsp.ErrHdrMoreValues && strings.Contains(lay.post, ",")) {
			add("well-formed-accepted", "q"+lay.name, fmt.Sprintf("verdict %v", e))
			return
		}
		if b.Expires != lay.exp {
			add("value-equals-digit-string", "c-expires-next-to-q"+lay.name, fmt.Sprintf("%s: Expires=%d want %d", buf, b.Expires, lay.exp))
		}
		if inRange {
			valid = true
			want := iv.Uint64() * 1000
			f := fv.Uint64()
			switch len(fp) {
			case 1:
				f *= 100
			case 2:
				f *= 10
			}
			want += f
			if uint64(b.Q) != want || b.ParamErr != 0 {
				add("q-exact", "in-range"+lay.name, fmt.Sprintf("q=%s reported as Q=%d ParamErr=%v want %d", s, b.Q, b.ParamErr, want))
			}
		} else {
			if b.Q != 0 {
				add("q-out-of-range-unset", "frac"+lay.name, fmt.Sprintf("q=%s reported as Q=%d", s, b.Q))
			} else if b.ParamErr == 0 {
				add("q-out-of-range-flagged", "frac"+lay.name, fmt.Sprintf("q=%s: Q unset but ParamErr not set", s))
			}
		}
	}
	return
}

var c10Positions = []string{"cseq", "clen", "expires", "c-expires", "q-int", "port", "port-user", "port-params", "port-hdrs", "port-digitpass", "port-digitpass6", "port-numpass", "port-userparam", "port-tel", "parsecmp-reuse", "port-v6-backtrack", "port-v6-backtrack-h", "port-bigpass", "port-bigpass-x", "port-bigpass0"}

func c10Boundaries() []*big.Int {
	var bs []*big.Int
	p := func(s string) { v, _ := new(big.Int).SetString(s, 10); bs = append(bs, v) }
	two := func(n uint) *big.Int { return new(big.Int).Lsh(big.NewInt(1), n) }
	for _, n := range []uint{16, 24, 31, 32, 63, 64} {
		bs = append(bs, two(n))
	}
	p("1000000000")
	p("10000000000")
	p("10000000000000000000")
	p("100000000000000000000")
	for k := int64(2); k <= 12; k++ {
		bs = append(bs, new(big.Int).Mul(two(32), big.NewInt(k)))
		bs = append(bs, new(big.Int).Add(two(64), new(big.Int).Mul(two(32), big.NewInt(k))))
	}
	bs = append(bs, new(big.Int).Add(two(64), two(16)), new(big.Int).Add(two(64), two(24)), new(big.Int).Mul(two(64), big.NewInt(10)))
	return bs
}

func checkC10(r *Run) {
	r.Assume = []string{"digit strings: all of length <= 5 (quick) / 7 (thorough), windows around the listed boundaries, 1-30 leading zeros, lengths to 40; q: all strings <= 6 over 0 1 5 9 .",
		"chunked delivery: schedule explorer on 'digits terminator' single-path tries for boundary values (accumulators are carried across suspensions)"}
	run := func(c *enumCtx, d []byte) {
		for _, p := range c10Positions {
			c.st.Evals++
			c.st.Transitions++
			for _, v := range evalC10(p, d) {
				r.Col.add(v)
			}
		}
		if len(d) > 1 {
			c.st.Nontrivial++
		}
		c.st.States++
	}
	enumStrings(r, []byte("0123456789"), 1, r.pick(5, 7), nil, run)
	// status: all 1000
	enumStrings(r, []byte("0123456789"), 3, 3, nil, func(c *enumCtx, d []byte) {
		c.st.Evals++
		c.st.Transitions++
		for _, v := range evalC10("status", d) {
			r.Col.add(v)
		}
	})
	// boundary windows
	bnd := c10Boundaries()
	win := int64(r.pick(2000, 100000))
	parallelFor(r, len(bnd), func(c *enumCtx, i int) {
		for d := -win; d <= win; d++ {
			v := new(big.Int).Add(bnd[i], big.NewInt(d))
			if v.Sign() < 0 {
				continue
			}
			run(c, []byte(v.String()))
		}
		// the boundary value (and its neighbours) followed by 1-3 further digits: a number that is cut off at the limit
		// looks in range
		for _, d := range []int64{-1, 0, 1} {
			b := new(big.Int).Add(bnd[i], big.NewInt(d)).String()
			for k := 0; k < 1110; k++ {
				var tail string
				switch {
				case k < 10:
					tail = fmt.Sprintf("%01d", k)
				case k < 110:
					tail = fmt.Sprintf("%02d", k-10)
				default:
					tail = fmt.Sprintf("%03d", k-110)
				}
				run(c, []byte(b+tail))
				if k < 110 {
					run(c, []byte("00"+b+tail))
				}
			}
		}
		// leading zeros and long strings
		for z := 1; z <= 30; z++ {
			for _, d := range []int64{-1, 0, 1} {
				v := new(big.Int).Add(bnd[i], big.NewInt(d))
				run(c, []byte(strings.Repeat("0", z)+v.String()))
			}
		}
	})
	c0 := &enumCtx{r: r, st: newStats()}
	for l := 1; l <= 40; l++ {
		for _, dg := range []string{"1", "9", "4"} {
			run(c0, []byte(strings.Repeat(dg, l)))
			run(c0, []byte("1"+strings.Repeat("0", l-1)))
		}
	}
	r.St.merge(c0.st)
	// q values with fractions
	enumStrings(r, []byte("0159."), 1, 6, nil, func(c *enumCtx, s []byte) {
		vs, valid := evalC10q(s)
		c.st.Evals++
		c.st.Transitions++
		if valid {
			c.st.Nontrivial++
		}
		for _, v := range vs {
			r.Col.add(v)
		}
	})
	// whole messages: every status code (and a few request methods) x several Content-Length / CSeq / Expires
	// spellings: each number as reported by the message parser is the one written in its own header, whatever the
	// first line or the other headers say
	{
		firsts := []string{"INVITE sip:a@b SIP/2.0", "REGISTER sip:r SIP/2.0", "FOO sip:x SIP/2.0"}
		for code := 0; code < 1000; code++ {
			firsts = append(firsts, fmt.Sprintf("SIP/2.0 %03d Reason", code))
		}
		parallelFor(r, len(firsts), func(c *enumCtx, i int) {
			for _, cl := range []string{"0", "5", "11", "007", "16777216"} {
				for _, num := range []string{"1", "204", "4294967295"} {
					hdrs := "Call-ID: x\r\nCSeq: " + num + " INVITE\r\nExpires: " + num + "\r\nContact: <sip:a@b>;expires=" + num + ";q=0.204\r\nContent-Length: " + cl + "\r\n\r\n"
					n, _ := new(big.Int).SetString(cl, 10)
					body := ""
					if n.Int64() < 100 {
						body = strings.Repeat("b", int(n.Int64()))
					}
					// every flag set x {whole body (if small), part of it, none of it}: whatever verdict the framing gives,
					// a successful parse reports the numbers that are written
					type fb struct {
						fl   uint8
						body string
					}
					var fbs []fb
					for fl := uint8(0); fl < 8; fl++ {
						fbs = append(fbs, fb{fl, body})
						if n.Sign() > 0 {
							part := "bb"
							if n.Int64() <= 2 {
								part = "b"[:n.Int64()-1]
							}
							fbs = append(fbs, fb{fl, part})
							if part != "" {
								fbs = append(fbs, fb{fl, ""})
							}
						}
					}
					for _, x := range fbs {
						fl, body := x.fl, x.body
						buf := []byte(firsts[i] + "\r\n" + hdrs + body)
						var m sipsp.PSIPMsg
						m.Init(nil, nil, nil)
						_, e := sipsp.ParseSIPMsg(buf, 0, &m, fl)
						c.st.Evals++
						c.st.Transitions++
						if e != 0 {
							continue
						}
						bad := ""
						want, _ := new(big.Int).SetString(num, 10)
						switch {
						case uint64(m.PV.CLen.UIVal) != n.Uint64():
							bad = fmt.Sprintf("Content-Length %s reported as %d", cl, m.PV.CLen.UIVal)
						case uint64(m.PV.CSeq.CSeqNo) != want.Uint64():
							bad = fmt.Sprintf("CSeq %s reported as %d", num, m.PV.CSeq.CSeqNo)
						case uint64(m.PV.Expires.UIVal) != want.Uint64():
							bad = fmt.Sprintf("Expires %s reported as %d", num, m.PV.Expires.UIVal)
						case m.PV.Contacts.N != 1 || uint64(m.PV.Contacts.GetContact(0).Expires) != want.Uint64() || m.PV.Contacts.GetContact(0).Q != 204:
							bad = fmt.Sprintf("contact expires %s / q 0.204 reported as %d / %d", num, m.PV.Contacts.GetContact(0).Expires, m.PV.Contacts.GetContact(0).Q)
						case i >= 3 && int(m.FL.Status) != i-3:
							bad = fmt.Sprintf("status %03d reported as %d", i-3, m.FL.Status)
						}
						if bad != "" {
							r.Col.add(&Violation{Property: "C10", Site: "ParseSIPMsg", Rule: "value-equals-digit-string", Class: "whole-message/" + strings.Fields(bad)[0], Detail: bad, Case: mkCase("C10msg", "ParseSIPMsg", &Cfg{Flags: uint(fl)}, buf, nil)})
						}
					}
				}
			}
		})
	}
	// a parameter written without a value has no digit string: it reports no number, whatever stands before it
	{
		c0 := &enumCtx{r: r, st: newStats()}
		for _, d := range []string{"0", "1", "7", "1000", "4294967295", "4294967296"} {
			for _, qv := range []string{"0", "1", "0.5", "1.000"} {
				for _, tmpl := range []string{";expires=%s;q", ";expires=%s;Q;x=1", ";q=%[2]s;expires", ";x=%s;q", ";x=%s;expires", ";expires=%s;x;q", ";q=%[2]s;x;expires;y=2", ";tag=%s;q;expires"} {
					txt := "<sip:a@b.c>" + fmt.Sprintf(tmpl, d, qv)
					txt = strings.ReplaceAll(txt, "%!(EXTRA string="+qv+")", "")
					buf := []byte(txt + "\r\nX")
					var b sipsp.PFromBody
					_, e := sipsp.ParseOneContact(buf, 0, &b)
					c0.st.Evals++
					c0.st.Transitions++
					qHasVal, expHasVal := strings.Contains(strings.ToLower(txt), ";q="), strings.Contains(txt, ";expires=")
					if e != 0 {
						continue
					}
					if !qHasVal && b.Q != 0 {
						r.Col.add(&Violation{Property: "C10", Site: "ParseOneContact", Rule: "valueless-parameter-reports-no-number", Class: "q", Detail: fmt.Sprintf("%q: Q=%d", txt, b.Q), Case: mkCase("C10valueless", "ParseOneContact", nil, buf, nil)})
					}
					if !expHasVal && (b.Expires != 0) {
						r.Col.add(&Violation{Property: "C10", Site: "ParseOneContact", Rule: "valueless-parameter-reports-no-number", Class: "expires", Detail: fmt.Sprintf("%q: Expires=%d HasExpires=%v", txt, b.Expires, b.HasExpires), Case: mkCase("C10valueless", "ParseOneContact", nil, buf, nil)})
					}
				}
			}
		}
		r.St.merge(c0.st)
	}
	// chunked: every schedule of "digits + terminator" for boundary values
	var paths, cpaths, qpaths [][]byte
	for _, small := range []string{"0000000010", "00000000007", "0000016777216", "0000000000000000000065535"} {
		paths = append(paths, []byte(small+"\r\nX"))
		cpaths = append(cpaths, []byte(small+" INVITE\r\nX"))
	}
	for _, b := range bnd[:10] {
		for d := int64(-2); d <= 2; d++ {
			v := new(big.Int).Add(b, big.NewInt(d)).String()
			paths = append(paths, []byte(v+"\r\nX"), []byte("00"+v+" \r\n X\r\nY"), []byte(strings.Repeat("0", 12-len(v)%12)+v+"\r\nX"))
			cpaths = append(cpaths, []byte(v+" INVITE\r\nX"))
			qpaths = append(qpaths, []byte("<sip:a@b>;expires="+v+";q="+v+"\r\nX"), []byte("<sip:a@b>;q=0."+v[:1]+";expires="+v+" ,<sip:c@d>;expires=1\r\nX"))
		}
	}
	one := func(ps [][]byte) TrieGen { return menuTrie{[][][]byte{ps}} }
	plain := []Cfg{{HdrCap: -1, ValCap: -1}}
	or := Oracles{Schedule: true}
	exploreSpaces(r, cseqDrv, []space{{name: "chunked/cseq", gen: one(cpaths), cfgs: plain, beyondErr: 1, beyondOk: 1, split: 1}}, or, nil)
	for w := uint(0); w < 3; w++ {
		exploreSpaces(r, uintDrv, []space{{name: "chunked/uint", gen: one(paths), cfgs: plain, beyondErr: 1, beyondOk: 1, split: 1}}, or, setUint(w))
	}
	exploreSpaces(r, nameAddrDrv, []space{{name: "chunked/contact-params", gen: one(qpaths), cfgs: []Cfg{{HdrType: int(sipsp.HdrContact), HdrCap: -1, ValCap: -1}}, beyondErr: 1, beyondOk: 1, split: 1}}, or, nil)
	var hpaths [][]byte
	for _, p := range cpaths[:20] {
		hpaths = append(hpaths, append(append([]byte("CSeq: "), p[:len(p)-1]...), "\r\n"...))
	}
	for _, p := range paths[:40] {
		hpaths = append(hpaths, append(append([]byte("Content-Length: "), p[:len(p)-1]...), "\r\n"...), append(append([]byte("Expires: "), p[:len(p)-1]...), "\r\n"...),
			append(append([]byte("l:"), p[:len(p)-1]...), "X: y\r\n\r\n"...))
	}
	exploreSpaces(r, hdrsDrv, []space{{name: "chunked/hdr-lines", gen: one(hpaths), cfgs: []Cfg{{HdrCap: -1, ValCap: -1, WithVals: true}}, beyondErr: 1, beyondOk: 1, split: 1}}, or, nil)
	var mpaths [][]byte
	for _, p := range hpaths {
		mpaths = append(mpaths, append([]byte("INVITE sip:a SIP/2.0\r\n"), p...))
	}
	exploreSpaces(r, msgDrv, []space{{name: "chunked/messages", gen: one(mpaths), cfgs: []Cfg{{HdrCap: -1, ValCap: -1}, {HdrCap: -1, ValCap: -1, Flags: 1}}, beyondErr: 1, beyondOk: 1, split: 1}}, or, nil)
	c10Split(r)
}

func init() {
	replayers["C10"] = func(prop string, c *Case) []*Violation {
		pos, _ := c.Extra["pos"].(string)
		if pos == "q" {
			vs, _ := evalC10q(c.input())
			return vs
		}
		return evalC10(pos, c.input())
	}
	replayers["C10msg"] = func(prop string, c *Case) []*Violation {
		// re-parse and compare every number with the digits of its own header (found by a plain text search)
		buf := c.input()
		var m sipsp.PSIPMsg
		m.Init(nil, nil, nil)
		if _, e := sipsp.ParseSIPMsg(buf, 0, &m, uint8(c.Cfg.Flags)); e != 0 {
			return nil
		}
		field := func(name, end string) uint64 {
			t := string(buf)
			i := strings.Index(t, name)
			if i < 0 {
				return 0
			}
			t = t[i+len(name):]
			if j := strings.IndexAny(t, end); j >= 0 {
				t = t[:j]
			}
			v, _ := new(big.Int).SetString(strings.TrimSpace(t), 10)
			if v == nil {
				return 0
			}
			return v.Uint64()
		}
		bad := ""
		switch {
		case uint64(m.PV.CLen.UIVal) != field("Content-Length: ", "\r"):
			bad = "Content-Length"
		case uint64(m.PV.CSeq.CSeqNo) != field("CSeq: ", " "):
			bad = "CSeq"
		case uint64(m.PV.Expires.UIVal) != field("Expires: ", "\r"):
			bad = "Expires"
		case m.PV.Contacts.N != 1 || uint64(m.PV.Contacts.GetContact(0).Expires) != field(";expires=", ";") || m.PV.Contacts.GetContact(0).Q != 204:
			bad = "contact"
		case strings.HasPrefix(string(buf), "SIP/2.0 ") && uint64(m.FL.Status) != field("SIP/2.0 ", " "):
			bad = "status"
		}
		if bad != "" {
			return []*Violation{{Property: prop, Site: "ParseSIPMsg", Rule: "value-equals-digit-string", Class: "whole-message/" + bad, Case: c}}
		}
		return nil
	}
	replayers["C10valueless"] = func(prop string, c *Case) []*Violation {
		buf := c.input()
		txt := strings.ToLower(string(buf))
		var b sipsp.PFromBody
		if _, e := sipsp.ParseOneContact(buf, 0, &b); e != 0 {
			return nil
		}
		var vs []*Violation
		if !strings.Contains(txt, ";q=") && b.Q != 0 {
			vs = append(vs, &Violation{Property: prop, Site: "ParseOneContact", Rule: "valueless-parameter-reports-no-number", Class: "q", Detail: fmt.Sprintf("Q=%d", b.Q), Case: c})
		}
		if !strings.Contains(txt, ";expires=") && b.Expires != 0 {
			vs = append(vs, &Violation{Property: prop, Site: "ParseOneContact", Rule: "valueless-parameter-reports-no-number", Class: "expires", Detail: fmt.Sprintf("Expires=%d", b.Expires), Case: c})
		}
		return vs
	}
	register("C10", &checkDef{fn: checkC10,
		rule:        "E4: every digit string of the bounded families placed in each numeric position (CSeq, Content-Length, Expires, Contact expires/q, URI port in 4 shapes, status) on the real parsers, compared with math/big; E1 schedule explorer for boundary values (chunked = one-shot); non-trivial = digit strings of more than one digit / in-range q values",
		quickBudget: 120 * time.Second, thorBudget: 20 * time.Minute})
}
