package main

// Hang watchdog (C04: "no exported function ... fails to return"). Every worker publishes what it is working on
// before it calls into the library; a monitor goroutine reports a VIOLATION and ends the process when one unit of
// work (microseconds to milliseconds normally) has not finished within hangLimit. This is the only wall-clock
// oracle of the framework; the limit is four orders of magnitude above the slowest unit observed under load.

import (
	"fmt"
	"os"
	"strconv"
	"sync"
	"sync/atomic"
	"time"
)

var hangLimit = 90 * time.Second // VERIF_HANG_LIMIT_S overrides (used to test the watchdog itself)

type hbSlot struct {
	since atomic.Int64 // unix nanos when the current unit started (0 = idle)
	mu    sync.Mutex
	desc  func() *Violation
	st    *Stats // the worker's counters: a long unit of work is alive as long as they move
	lastV int64  // watchdog-private: last progress value seen
	lastT int64  // watchdog-private: when it last changed
}

func (s *hbSlot) progress() int64 {
	if s.st == nil {
		return 0
	}
	return s.st.Transitions + s.st.Evals + s.st.States // racy read, monitoring only
}

var (
	hbMu    sync.Mutex
	hbSlots []*hbSlot
	hbOnce  sync.Once
	hbRun   *Run
)

func newHB() *hbSlot {
	s := &hbSlot{}
	hbMu.Lock()
	hbSlots = append(hbSlots, s)
	hbMu.Unlock()
	return s
}

func (s *hbSlot) begin(desc func() *Violation) {
	s.mu.Lock()
	s.desc = desc
	s.mu.Unlock()
	s.since.Store(time.Now().UnixNano())
}

func (s *hbSlot) end() { s.since.Store(0) }

func startWatchdog(r *Run) {
	hbRun = r
	if s, err := strconv.Atoi(os.Getenv("VERIF_HANG_LIMIT_S")); err == nil && s > 0 {
		hangLimit = time.Duration(s) * time.Second
	}
	hbOnce.Do(func() {
		go func() {
			for {
				time.Sleep(2 * time.Second)
				now := time.Now().UnixNano()
				hbMu.Lock()
				slots := append([]*hbSlot(nil), hbSlots...)
				hbMu.Unlock()
				for _, s := range slots {
					t := s.since.Load()
					if t == 0 {
						s.lastT = 0
						continue
					}
					if p := s.progress(); p != s.lastV || s.lastT == 0 || s.lastT < t {
						s.lastV, s.lastT = p, now
						if s.lastT < t {
							s.lastT = t
						}
						continue
					}
					if time.Duration(now-s.lastT) > hangLimit {
						s.mu.Lock()
						d := s.desc
						s.mu.Unlock()
						v := d()
						v.Rule = "call-returns"
						v.Class = "hang"
						v.Detail = fmt.Sprintf("a call that normally takes microseconds has made no progress for %v: %s", hangLimit, v.Detail)
						fmt.Printf("HANG detected while checking %s: %s\n", hbRun.Prop, v.Detail)
						if v.Property == hbRun.Prop {
							hbRun.Col.add(v)
						} else {
							fmt.Printf("NOTE: non-termination is C04's subject; %s ends without verdict on this tree\n", hbRun.Prop)
						}
						hbRun.St.Exhaustive = false
						hbRun.St.CapsHit = append(hbRun.St.CapsHit, "aborted by the hang watchdog")
						noReverify = true
						code := hbRun.finish()
						if v.Property != hbRun.Prop && code == 0 {
							code = 2
						}
						os.Exit(code)
					}
				}
			}
		}()
	})
}

// set when finish() is called from the watchdog: the hanging case cannot be re-executed 5 times
var noReverify bool

// runWithTimeout runs f in a goroutine and reports whether it finished within d.
func runWithTimeout(d time.Duration, f func()) bool {
	done := make(chan struct{})
	go func() {
		defer func() { recover(); close(done) }()
		f()
	}()
	select {
	case <-done:
		return true
	case <-time.After(d):
		return false
	}
}
