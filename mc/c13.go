package main

import (
	"fmt"
	"strings"
	"time"

	"github.com/intuitivelabs/sipsp"
)

type c13Case struct {
	Msg    string
	Flags  uint8
	HdrCap int
	ValCap int
	Cut    int
	Reuse  bool `json:",omitempty"` // the object and its arrays were used before (see parseMsgReuse)
}

var c13Prev5 = []byte("REGISTER sip:r SIP/2.0\r\nVia: SIP/2.0/UDP h\r\nFrom: <sip:f@g>;tag=1\r\nTo: <sip:f@g>\r\nCall-ID: prev\r\nCSeq: 9 REGISTER\r\nContact: <sip:1@h>;expires=100, <sip:2@h>, <sip:3@h>;q=0.2\r\nX-A: 1\r\nX-B: 2\r\nm: <sip:4@h>, <sip:5@h>;expires=7\r\nP-Asserted-Identity: <sip:p@q>, <tel:1>\r\nExpires: 3\r\nl: 0\r\n\r\n")
var c13Prev1 = []byte("OPTIONS sip:o SIP/2.0\r\nContact: <sip:one@h>\r\nl: 0\r\n\r\n")

func parseMsgCfg(buf []byte, hc, vc int, flags uint8, cut int) (*sipsp.PSIPMsg, int, sipsp.ErrorHdr) {
	return parseMsgReuse(buf, hc, vc, flags, cut, false)
}

// parseMsgReuse: with reuse the message object has a history - it parsed a 5-contact message into the arrays, was
// re-initialised with a second set of arrays of the same capacities for a 1-contact message, and then got the first
// set back through Init: capacities must matter as little as on a new object.
func parseMsgReuse(buf []byte, hc, vc int, flags uint8, cut int, reuse bool) (*sipsp.PSIPMsg, int, sipsp.ErrorHdr) {
	m := new(sipsp.PSIPMsg)
	ah, av := mkHdrs(hc), mkVals(vc)
	if reuse {
		m.Init(nil, ah, av)
		sipsp.ParseSIPMsg(c13Prev5, 0, m, 0)
		m.Init(nil, mkHdrs(hc), mkVals(vc))
		sipsp.ParseSIPMsg(c13Prev1, 0, m, 0)
	}
	m.Init(nil, ah, av)
	offs := 0
	if cut > 0 && cut < len(buf) {
		n, e := sipsp.ParseSIPMsg(buf[:cut], 0, m, flags)
		if e != sipsp.ErrHdrMoreBytes {
			return m, n, e
		}
		offs = n
	}
	n, e := sipsp.ParseSIPMsg(buf, offs, m, flags)
	return m, n, e
}

// capIndependent keeps the lines of an observation that must not depend on the caller's capacities.
func capIndependent(obs string) (indep string, hdrs, vals map[string]string) {
	hdrs, vals = map[string]string{}, map[string]string{}
	var sb strings.Builder
	for _, l := range strings.Split(obs, "\n") {
		switch {
		case strings.HasPrefix(l, ".HL.Hdrs["):
			i := strings.IndexByte(l, ']')
			hdrs[l[9:i]] += l[i+1:] + "\n"
		case strings.HasPrefix(l, ".PV.Contacts.Vals["):
			i := strings.IndexByte(l, ']')
			vals[l[18:i]] += l[i+1:] + "\n"
		case strings.HasPrefix(l, ".HL.Hdrs.len"), strings.HasPrefix(l, ".PV.Contacts.Vals.len"), strings.HasPrefix(l, "Contacts.VNo="):
			// storage-dependent
		default:
			sb.WriteString(l)
			sb.WriteByte('\n')
		}
	}
	return sb.String(), hdrs, vals
}

func evalC13(cs *c13Case) (vs []*Violation, ok bool) {
	buf := []byte(cs.Msg)
	add := func(rule, class, detail string) {
		c := mkCase("C13", "ParseSIPMsg", &Cfg{Flags: uint(cs.Flags), HdrCap: cs.HdrCap, ValCap: cs.ValCap}, buf, nil)
		c.Extra = map[string]any{"case": *cs} // a copy: callers re-use their case variables
		vs = append(vs, &Violation{Property: "C13", Site: "ParseSIPMsg", Rule: rule, Class: class, Detail: detail, Case: c})
	}
	defer recoverTo3(add)
	am, an, ae := parseMsgCfg(buf, 120, 120, cs.Flags, -1)
	if ae != 0 {
		// not a successfully parsed input: only the verdict and the offset are compared (one-shot)
		if cs.Cut < 0 {
			if _, n, e := parseMsgReuse(buf, cs.HdrCap, cs.ValCap, cs.Flags, cs.Cut, cs.Reuse); e != ae || n != an {
				add("verdict-and-offset-independent-of-capacity", errName(e)+"/rejected-with-ample-arrays", fmt.Sprintf("caps %d/%d: (%d,%v) ample: (%d,%v)", cs.HdrCap, cs.ValCap, n, e, an, ae))
			}
		}
		return
	}
	ok = true
	if cs.Cut >= 0 && !am.PV.CLen.Parsed() && cs.Flags&sipsp.SIPMsgSkipBodyF == 0 {
		return // without Content-Length the body is "the rest of the buffer": a prefix legitimately gives a different result
	}
	m, n, e := parseMsgReuse(buf, cs.HdrCap, cs.ValCap, cs.Flags, cs.Cut, cs.Reuse)
	if e != ae || n != an {
		add("verdict-and-offset-independent-of-capacity", errName(e), fmt.Sprintf("caps %d/%d: (%d,%v) ample: (%d,%v)", cs.HdrCap, cs.ValCap, n, e, an, ae))
		return
	}
	ai, ah, av := capIndependent(msgDrv.obs(am, buf))
	ci, ch, cv := capIndependent(msgDrv.obs(m, buf))
	if ai != ci {
		add("counts-flags-shortcuts-values-independent-of-capacity", diffField(ai, ci), firstDiff(ai, ci))
	}
	hc, vc := cs.HdrCap, cs.ValCap
	if hc < 0 {
		hc = 10
	}
	if vc < 0 {
		vc = 10
	}
	wantH := min(am.HL.N, hc)
	if len(ch) != wantH {
		add("stored-headers-are-a-prefix", "count", fmt.Sprintf("stored %d want %d", len(ch), wantH))
	}
	for k, v := range ch {
		if ah[k] != v {
			add("stored-headers-are-a-prefix", "content", fmt.Sprintf("header %s: %q ample %q", k, v, ah[k]))
		}
	}
	wantV := min(am.PV.Contacts.N, vc)
	if len(cv) != wantV || m.PV.Contacts.VNo() != wantV {
		add("stored-contacts-are-a-prefix", "count", fmt.Sprintf("stored %d VNo %d want %d", len(cv), m.PV.Contacts.VNo(), wantV))
	}
	for k, v := range cv {
		if av[k] != v {
			add("stored-contacts-are-a-prefix", "content", fmt.Sprintf("contact %s: %q ample %q", k, v, av[k]))
		}
	}
	if m.PV.Contacts.More() != (am.PV.Contacts.N > vc) {
		add("more-indicator-iff-dropped", "contacts", fmt.Sprintf("More=%v N=%d cap=%d", m.PV.Contacts.More(), am.PV.Contacts.N, vc))
	}
	// signature: same or explicit truncation
	as, ase := sipsp.GetMsgSig(am)
	s, se := sipsp.GetMsgSig(m)
	if se != sipsp.ErrHdrTrunc && (se != ase || s != as) {
		add("signature-same-or-truncated", errName(se), fmt.Sprintf("sig %q/%v ample %q/%v", s.String(), se, as.String(), ase))
	}
	return
}

type c13List struct {
	Text  string
	Hdrs  bool
	Flags uint
	Cap   int
	Cut   int
}

func evalC13List(cs *c13List) (vs []*Violation) {
	buf := []byte(cs.Text)
	site := "ParseAllURIParams"
	if cs.Hdrs {
		site = "ParseAllURIHdrs"
	}
	add := func(rule, class, detail string) {
		c := mkCase("C13list", site, &Cfg{Flags: cs.Flags, ValCap: cs.Cap, HdrCap: -1}, buf, nil)
		c.Extra = map[string]any{"case": *cs} // a copy: callers re-use their case variables
		vs = append(vs, &Violation{Property: "C13", Site: site, Rule: rule, Class: class, Detail: detail, Case: c})
	}
	defer recoverTo3(add)
	run := func(capn, cut int) (string, int, sipsp.ErrorHdr, int, bool, []string) {
		cfg := &Cfg{Flags: cs.Flags, ValCap: capn, HdrCap: -1}
		var obs string
		var n int
		var e sipsp.ErrorHdr
		var N int
		var more bool
		var items []string
		if cs.Hdrs {
			o := uriHdrsDrv.New(cfg)
			offs := 0
			if cut > 0 && cut < len(buf) {
				offs, e = uriHdrsDrv.Step(o, buf[:cut], 0, cfg)
				n = offs
			}
			if cut <= 0 || cut >= len(buf) || e == sipsp.ErrHdrMoreBytes {
				n, e = uriHdrsDrv.Step(o, buf, offs, cfg)
			}
			N, more = o.L.N, o.L.More()
			for i := 0; i < o.L.HNo(); i++ {
				items = append(items, fmt.Sprint(o.L.Hdrs[i].Name, o.L.Hdrs[i].Val, o.L.Hdrs[i].All))
			}
			obs = fmt.Sprint(o.Total, "empty=", o.L.Empty())
		} else {
			o := uriParamsDrv.New(cfg)
			offs := 0
			if cut > 0 && cut < len(buf) {
				offs, e = uriParamsDrv.Step(o, buf[:cut], 0, cfg)
				n = offs
			}
			if cut <= 0 || cut >= len(buf) || e == sipsp.ErrHdrMoreBytes {
				n, e = uriParamsDrv.Step(o, buf, offs, cfg)
			}
			N, more = o.L.N, o.L.More()
			for i := 0; i < o.L.PNo(); i++ {
				items = append(items, fmt.Sprint(o.L.Params[i].Param.Name, o.L.Params[i].Param.Val, o.L.Params[i].Param.All, o.L.Params[i].T))
			}
			obs = fmt.Sprint(o.Total, o.L.Types, "empty=", o.L.Empty())
		}
		return obs, n, e, N, more, items
	}
	aobs, an, ae, aN, _, aitems := run(16, -1)
	obs, n, e, N, more, items := run(cs.Cap, cs.Cut)
	if !successLike(ae) {
		// rejected (or unfinished) with ample room: the same verdict at the same offset with any other capacity
		if n != an || e != ae {
			add("verdict-and-offset-independent-of-capacity", "rejected-with-ample/"+errName(e), fmt.Sprintf("(%d,%v) ample (%d,%v)", n, e, an, ae))
		}
		return
	}
	if n != an || e != ae {
		add("verdict-and-offset-independent-of-capacity", errName(e), fmt.Sprintf("(%d,%v) ample (%d,%v)", n, e, an, ae))
		return
	}
	if obs != aobs || N != aN {
		add("counts-and-types-independent-of-capacity", "N/Types", fmt.Sprintf("N=%d %s ample N=%d %s", N, obs, aN, aobs))
	}
	capn := cs.Cap
	if capn < 0 {
		capn = 0
	}
	if len(items) != min(aN, capn) {
		add("stored-items-are-a-prefix", "count", fmt.Sprintf("stored %d want %d", len(items), min(aN, capn)))
	} else {
		for i := range items {
			if items[i] != aitems[i] {
				add("stored-items-are-a-prefix", "content", fmt.Sprintf("item %d %s ample %s", i, items[i], aitems[i]))
			}
		}
	}
	if more != (aN > capn) {
		add("more-indicator-iff-dropped", "list", fmt.Sprintf("More=%v N=%d cap=%d", more, aN, capn))
	}
	return
}

func checkC13(r *Run) {
	r.Assume = []string{"reference = the same input parsed with ample arrays (40 headers / 40 contacts / 16 list items)", "one-shot and every single cut per capacity (all schedules per capacity follow from C01/C02)"}
	msgDrv.init()
	hdrPool := []string{"From: <sip:a@b>;tag=1\r\n", "To: <sip:c@d>\r\n", "Call-ID: c1@1.2.3.4\r\n", "CSeq: 3 INVITE\r\n", "Via: SIP/2.0/UDP h;branch=z9hG4bK1\r\n", "Max-Forwards: 70\r\n",
		"Contact: <sip:1@h>;expires=9\r\n", "m: <sip:2@h>;expires=3, <sip:3@h>\r\n", "Contact: \"x\" <sip:4@h>;q=0.2,\r\n <sip:5@h>;expires=100\r\n", "P-Asserted-Identity: <sip:p@q>, <tel:+1>\r\n", "P-Asserted-Identity: <sip:p3@q>,<sip:p4@q>\r\n",
		"Expires: 50\r\n", "Contact: *\r\n", "User-Agent:\r\n", "X: y\r\n", "Record-Route:\r\n", "From: <sip:second@x>;tag=2\r\n", "Route: \r\n", "Content-Length: 2\r\n"}
	// messages: all ordered selections of up to 6 header lines would be too many; take every combination of <= K lines in pool order plus rotations
	var msgs []string
	K := r.pick(4, 6)
	var rec func(start int, cur []string)
	rec = func(start int, cur []string) {
		if len(cur) > 0 {
			for rot := 0; rot < len(cur); rot += 2 {
				var sb strings.Builder
				sb.WriteString("INVITE sip:a@b SIP/2.0\r\n")
				for i := range cur {
					sb.WriteString(cur[(i+rot)%len(cur)])
				}
				sb.WriteString("\r\nab")
				msgs = append(msgs, sb.String())
			}
		}
		if len(cur) == K {
			return
		}
		for i := start; i < len(hdrPool); i++ {
			rec(i+1, append(cur, hdrPool[i]))
		}
	}
	rec(0, nil)
	if r.quick() {
		var m2 []string
		for i := 0; i < len(msgs); i += 5 {
			m2 = append(m2, msgs[i])
		}
		r.Bounds["message_stride"] = 5
		msgs = m2
	}
	msgs = append(msgs, longMsgs[:6]...)
	// expires summary: every pattern of "has an expires parameter" over four contacts (two headers) x an Expires
	// header that is absent, smaller or larger than all of them
	for mask := 0; mask < 16; mask++ {
		for _, eh := range []string{"", "Expires: 5\r\n", "Expires: 3600\r\n"} {
			var cv []string
			for i := 0; i < 4; i++ {
				v := fmt.Sprintf("<sip:%d@h>", i)
				if mask>>i&1 == 1 {
					v += fmt.Sprintf(";expires=%d", 60*(i+1))
				}
				cv = append(cv, v)
			}
			msgs = append(msgs, "REGISTER sip:r SIP/2.0\r\nCall-ID: e\r\n"+eh+"Contact: "+cv[0]+", "+cv[1]+"\r\nm: "+cv[2]+","+cv[3]+"\r\nl: 0\r\n\r\n")
		}
	}
	// the '*' contact together with other Contact headers, in both orders
	for _, cl := range []string{"Contact: *\r\n", "Contact: *\r\nContact: <sip:a@192.0.2.1>\r\n", "m: *\r\nX: 1\r\nContact: <sip:a@h>;expires=5\r\nExpires: 9\r\n", "Contact: <sip:a@h>\r\nContact: *\r\n",
		"Contact: *\r\nContact: <sip:a@h>, <sip:b@h>\r\n", "Contact: *\r\nm: <sip:a@h>\r\nm: <sip:b@h>;expires=1\r\n", "Contact: * \r\nP-Asserted-Identity: <sip:p@q>\r\nContact: <sip:a@h>\r\n"} {
		msgs = append(msgs, "REGISTER sip:r SIP/2.0\r\nCall-ID: star\r\n"+cl+"l: 0\r\n\r\n")
	}
	parallelFor(r, len(msgs), func(c *enumCtx, i int) {
		msg := msgs[i]
		nh := strings.Count(msg, "\r\n") // upper bound on the header count
		if nh > 8 {
			nh = 8
		}
		any := false
		for hc := -1; hc <= nh+1; hc++ {
			for vc := -1; vc <= 6; vc++ {
				cuts := []int{-1}
				if (hc+vc+i)%7 == 0 {
					for cut := 1; cut < len(msg); cut += 1 + len(msg)/40 {
						cuts = append(cuts, cut)
					}
				}
				for _, cut := range cuts {
					for _, f := range []uint8{0, 1} {
						if f == 1 && cut >= 0 {
							continue
						}
						cs := &c13Case{Msg: msg, Flags: f, HdrCap: hc, ValCap: vc, Cut: cut}
						vs, ok := evalC13(cs)
						if ok && cut < 0 {
							// the same from a non-initial state: object and arrays with a history
							cs2 := *cs
							cs2.Reuse = true
							v2, _ := evalC13(&cs2)
							vs = append(vs, v2...)
							c.st.Transitions += 4
						}
						c.st.Transitions += 2
						c.st.Evals++
						c.st.Outcomes[fmt.Sprintf("parsed=%v hdrcap=%d", ok, hc)]++
						any = any || ok
						for _, v := range vs {
							r.Col.add(v)
						}
					}
				}
			}
		}
		if any {
			c.st.States++
			c.st.Nontrivial++
		}
	})
	// counts that are not small: n = 1..70 contact values (in one header, in two, one per header) and n generic
	// headers, against capacities around the built-in size (10), around n, none and ample
	parallelFor(r, 70*4, func(c *enumCtx, k int) {
		n, shape := k/4+1, k%4
		var sb strings.Builder
		sb.WriteString("REGISTER sip:r SIP/2.0\r\nCall-ID: n" + fmt.Sprint(n) + "\r\n")
		val := func(i int) string { return fmt.Sprintf("<sip:%d@h>;expires=%d", i, 100+i) }
		switch shape {
		case 0: // one header
			sb.WriteString("Contact: ")
			for i := 0; i < n; i++ {
				if i > 0 {
					sb.WriteString(", ")
				}
				sb.WriteString(val(i))
			}
			sb.WriteString("\r\n")
		case 1: // two headers, split in the middle, compact second
			sb.WriteString("Contact: " + val(0))
			for i := 1; i < n; i++ {
				if i == (n+1)/2 {
					sb.WriteString("\r\nX-Between: 1\r\nm: " + val(i))
				} else {
					sb.WriteString("," + val(i))
				}
			}
			sb.WriteString("\r\n")
		case 2: // one value per header
			for i := 0; i < n; i++ {
				sb.WriteString("Contact: " + val(i) + "\r\n")
			}
		default: // n generic headers and one contact at the end
			for i := 0; i < n; i++ {
				fmt.Fprintf(&sb, "X-%d: v%d\r\n", i, i)
			}
			sb.WriteString("m: " + val(0) + "\r\n")
		}
		sb.WriteString("Content-Length: 0\r\n\r\n")
		msg := sb.String()
		for _, hc := range []int{-1, 0, 1, 9, 10, 11, n, n + 1, n + 3, 110} {
			for _, vc := range []int{-1, 0, 1, 9, 10, 11, n - 1, n, n + 1, 110} {
				if vc < -1 || (hc != -1 && hc != n+3 && vc != -1 && vc != n) {
					continue // the full product only along the two axes
				}
				for _, reuse := range []bool{false, true} {
					vs, ok := evalC13(&c13Case{Msg: msg, HdrCap: hc, ValCap: vc, Cut: -1, Reuse: reuse})
					c.st.Transitions += 2
					c.st.Evals++
					if ok {
						c.st.Outcomes["count-sweep"]++
					}
					for _, v := range vs {
						r.Col.add(v)
					}
				}
			}
		}
	})
	// URI parameter / header lists with P <= 5 items
	items := []string{"transport=udp", "lr", "x=\"q\"", "TTL=1", "maddr = m", "y", "Y=2"}
	var lists []string
	var lrec func(cur []string)
	lrec = func(cur []string) {
		if len(cur) > 0 {
			lists = append(lists, strings.Join(cur, ";"))
		}
		if len(cur) == r.pick(4, 5) {
			return
		}
		for _, it := range items {
			lrec(append(cur, it))
		}
	}
	lrec(nil)
	parallelFor(r, len(lists), func(c *enumCtx, i int) {
		for _, hd := range []bool{false, true} {
			txt := lists[i]
			if hd {
				txt = strings.ReplaceAll(txt, ";", "&")
			}
			for _, tf := range []struct {
				tail string
				f    uint
			}{{"?x", uint(sipsp.POptTokQmTermF)}, {"\r\nX", 0}, {"", uint(sipsp.POptInputEndF)}} {
				if hd && tf.tail == "?x" {
					continue
				}
				P := strings.Count(lists[i], ";") + 1
				for cp := -1; cp <= P+1; cp++ {
					cuts := []int{-1}
					if tf.f&uint(sipsp.POptInputEndF) == 0 && (i+cp)%3 == 0 {
						for cut := 1; cut < len(txt)+len(tf.tail); cut++ {
							cuts = append(cuts, cut)
						}
					}
					for _, cut := range cuts {
						vs := evalC13List(&c13List{Text: txt + tf.tail, Hdrs: hd, Flags: tf.f, Cap: cp, Cut: cut})
						c.st.Transitions += 2
						c.st.Evals++
						for _, v := range vs {
							r.Col.add(v)
						}
					}
				}
			}
		}
		c.st.States++
		c.st.Nontrivial++
	})
	r.St.sample(fmt.Sprintf("%q", msgs[len(msgs)/3]))
	r.St.sample(lists[len(lists)/2])
	r.Bounds["messages"] = len(msgs)
	r.Bounds["lists"] = len(lists)
}

func init() {
	replayers["C13"] = func(prop string, c *Case) []*Violation {
		var cs c13Case
		remarshal(c.Extra["case"], &cs)
		vs, _ := evalC13(&cs)
		return vs
	}
	replayers["C13list"] = func(prop string, c *Case) []*Violation {
		var cs c13List
		remarshal(c.Extra["case"], &cs)
		return evalC13List(&cs)
	}
	register("C13", &checkDef{fn: checkC13,
		rule:        "E4: successfully parsed messages (combinations of up to K header lines incl. repeated From, 3 Contact headers with 5 values, 2 PAI headers with 4 values) x header capacity -1..N+1 x contact capacity -1..6 (one-shot, plus single cuts on a subset) compared with the ample-capacity parse: verdict, offset, counts, flags, shortcuts, values, summaries, first/last contact, signature; stored elements = prefix; URI param/header lists x capacity -1..P+1 x every cut; non-trivial = inputs that parse successfully",
		quickBudget: 150 * time.Second, thorBudget: 45 * time.Minute})
}
