package main

import (
	"fmt"
	"time"

	"github.com/intuitivelabs/sipsp"
)

// substTrie: all strings obtained from Msg by substituting at most Dev bytes with values from Vals
// (deviation-bounded exploration around a well-formed message); one trie node per byte.
type substTrie struct {
	Msg  []byte
	Vals []byte
	Dev  int
}

type substSt struct{ pos, dev int }
type substRoot struct{}
type substFirst struct{ pos int }

func (s substTrie) Root() any { return substRoot{} }
func (s substTrie) Expand(st any, depth int) []Frag {
	switch x := st.(type) {
	case substRoot:
		// the unmodified message, then one subtree per position of the first substitution
		// (the shared prefix is replayed as uncounted context: better load balance than a plain trie)
		fr := []Frag{{B: s.Msg, Next: substSt{len(s.Msg), 0}}}
		for i := range s.Msg {
			fr = append(fr, Frag{B: s.Msg[:i], Skip: true, Next: substFirst{i}})
		}
		return fr
	case substFirst:
		var fr []Frag
		for _, v := range s.Vals {
			if v != s.Msg[x.pos] {
				fr = append(fr, Frag{B: []byte{v}, Next: substSt{x.pos + 1, 1}})
			}
		}
		return fr
	case substSt:
		if x.pos >= len(s.Msg) {
			return nil
		}
		if x.dev >= s.Dev {
			return []Frag{{B: s.Msg[x.pos:], Next: substSt{len(s.Msg), x.dev}}}
		}
		fr := []Frag{{B: s.Msg[x.pos : x.pos+1], Next: substSt{x.pos + 1, x.dev}}}
		for _, v := range s.Vals {
			if v != s.Msg[x.pos] {
				fr = append(fr, Frag{B: []byte{v}, Next: substSt{x.pos + 1, x.dev + 1}})
			}
		}
		return fr
	}
	return nil
}

var hostile = []byte{0x00, 0x7f, 0x80, 0xff}

func hostileSigma(structural string) []byte {
	return append([]byte(structural), hostile...)
}

func capCfgs(withVals bool) []Cfg {
	return []Cfg{{HdrCap: -1, ValCap: -1, WithVals: withVals}, {HdrCap: 0, ValCap: 0, WithVals: withVals}, {HdrCap: 1, ValCap: 1, WithVals: withVals, Offs: 2, Junk: "ff"}}
}

func msgSigPost(o *sipsp.PSIPMsg, buf []byte) (res string) {
	defer func() {
		if r := recover(); r != nil {
			res = fmt.Sprint(r)
		}
	}()
	m := o
	if !o.Parsed() {
		// a caller holding an unfinished message gave it the buffer through Init(); emulate that
		// (Buf is restored afterwards, the object is otherwise untouched: GetMsgSig only reads)
		saved := o.Buf
		o.Buf = buf
		defer func() { o.Buf = saved }()
	}
	sig, err := sipsp.GetMsgSig(m)
	_ = sig.String()
	if sig.HdrSigLen > len(sig.HdrSig) || sig.HdrSigLen < 0 {
		return fmt.Sprintf("HdrSigLen %d out of range", sig.HdrSigLen)
	}
	_ = err
	return ""
}

func init() { msgDrv.Post = msgSigPost }

func checkC04(r *Run) {
	if onlyPart == "pair" {
		c04PairInterleave(r)
		return
	}
	if onlyPart == "e3" {
		c04E3(r)
		return
	}
	r.Assume = []string{"every Step runs under recover; a hang watchdog is not needed for the explorers (each call is bounded by the deadline check between jobs; loops are over a finite buffer)",
		"hostile alphabets = structural bytes of each parser + NUL 0x7f 0x80 0xff; full 256-value alphabet to depth 2-3",
		"isolation: see coverage.isolation"}
	// cheap, high-yield parts first (the big tries below are what the time budget may cut)
	c04NonParsing(r)
	c04Isolation(r)
	c04PairInterleave(r)
	c04E3(r)
	c04Reuse(r)
	or := Oracles{Sanity: true}
	// the well-formed-ish fragment and byte spaces of C02 (every sub-parser, incl. configurations with a start offset)
	// under the sanity oracle: offsets, dereferenceable fields and panics are checked on them too
	runAllDrivers(r, or)
	d3 := r.pick(2, 3)
	L := r.pick(5, 6)
	num := func(name string, sigma []byte, l int, cfgs []Cfg) []space {
		return []space{{name: name, gen: byteTrie{sigma, l}, cfgs: cfgs, beyondErr: 1, beyondOk: 2, split: 2}}
	}
	plain := []Cfg{{HdrCap: -1, ValCap: -1}, {HdrCap: -1, ValCap: -1, Offs: 3, Junk: "ff"}}
	a256 := all256()
	// --- name-addr
	for _, h := range []sipsp.HdrT{sipsp.HdrFrom, sipsp.HdrContact, sipsp.HdrPAI, sipsp.HdrRoute} {
		cf := []Cfg{{HdrType: int(h), HdrCap: -1, ValCap: -1}}
		exploreSpaces(r, nameAddrDrv, num("hostile/name-addr", hostileSigma("a \r\n<>\";=,\\*"), L, cf), or, nil)
		exploreSpaces(r, nameAddrDrv, num("all256/name-addr", a256, d3, cf), or, nil)
		exploreSpaces(r, nameAddrDrv, []space{{name: "all256-after-prefix/name-addr", gen: unionTrie{[]TrieGen{
			prefixedTrie{[]byte("<sip:a@b>;"), byteTrie{a256, 2}}, prefixedTrie{[]byte("\"q"), byteTrie{a256, 2}}, prefixedTrie{[]byte("sip:a;x="), byteTrie{a256, 2}}}},
			cfgs: cf, beyondErr: 1, beyondOk: 2, split: 2}}, or, nil)
	}
	// --- token params and lists
	var tcf []Cfg
	for _, f := range []uint{0, uint(sipsp.POptTokSpTermF), uint(sipsp.POptTokCommaTermF | sipsp.POptInputEndF), uint(sipsp.POptTokURIParamF | sipsp.POptInputEndF), uint(sipsp.POptTokURIHdrF | sipsp.POptInputEndF), uint(sipsp.POptTokQmTermF | sipsp.POptTokSpTermF)} {
		tcf = append(tcf, Cfg{Flags: f, HdrCap: -1, ValCap: -1})
	}
	exploreSpaces(r, tokParamDrv, num("hostile/tokparam", hostileSigma("a \r\n;&=\",\\?@"), L, tcf), or, nil)
	exploreSpaces(r, tokParamDrv, num("all256/tokparam", a256, d3, tcf[:3]), or, nil)
	exploreSpaces(r, tokLoopDrv, num("hostile/tokloop", hostileSigma("a \r\n;=\","), L, tcf[:3]), or, nil)
	var lcf []Cfg
	for _, f := range []uint{0, uint(sipsp.POptTokSpTermF), uint(sipsp.POptInputEndF)} {
		for _, c := range []int{-1, 0, 1} {
			lcf = append(lcf, Cfg{Flags: f, HdrCap: -1, ValCap: c})
		}
	}
	exploreSpaces(r, uriParamsDrv, num("hostile/uriparams", hostileSigma("a;&=? \r\n\""), L, lcf), or, nil)
	exploreSpaces(r, uriHdrsDrv, num("hostile/urihdrs", hostileSigma("a;&=? \r\n\""), L, lcf), or, nil)
	exploreSpaces(r, uriParamsDrv, num("all256/uriparams", a256, d3, lcf[:3]), or, nil)
	exploreSpaces(r, uriHdrsDrv, num("all256/urihdrs", a256, d3, lcf[:3]), or, nil)
	exploreSpaces(r, skipQuotedDrv, num("hostile/skipquoted", hostileSigma("a\"\\ \r\n\x01"), L+1, plain), or, nil)
	exploreSpaces(r, skipQuotedDrv, num("all256/skipquoted", a256, d3, plain), or, nil)
	// --- numeric / call-id
	nsig := hostileSigma("19a \t\r\n")
	exploreSpaces(r, cseqDrv, num("hostile/cseq", nsig, L+1, plain), or, nil)
	exploreSpaces(r, cseqDrv, num("all256/cseq", a256, d3, plain), or, nil)
	exploreSpaces(r, callidDrv, num("hostile/callid", nsig, L+1, plain), or, nil)
	exploreSpaces(r, callidDrv, num("all256/callid", a256, d3, plain), or, nil)
	for w := uint(0); w < 3; w++ {
		exploreSpaces(r, uintDrv, num("hostile/uint", nsig, L+1, plain), or, setUint(w))
	}
	exploreSpaces(r, uintDrv, num("all256/uint", a256, d3, plain), or, nil)
	// --- contact / PAI lists
	var ccf []Cfg
	for _, c := range []int{-1, 0, 1, 2} {
		ccf = append(ccf, Cfg{HdrCap: -1, ValCap: c})
	}
	lsig := hostileSigma("a \r\n<>\";=,*")
	exploreSpaces(r, contactsDrv, num("hostile/contacts", lsig, L, ccf), or, nil)
	exploreSpaces(r, paisDrv, num("hostile/pais", lsig, L, ccf[:1]), or, nil)
	// --- first line
	fsp := []space{{name: "hostile/fline", gen: unionTrie{[]TrieGen{
		prefixedTrie{[]byte("AAAAAAA"), byteTrie{hostileSigma("A \t\r\n"), L}},
		prefixedTrie{[]byte("AAA AAA "), byteTrie{hostileSigma("A \t\r\n"), L}},
		prefixedTrie{[]byte("SIP/2.0 "), byteTrie{hostileSigma("2A \r\n"), L}},
		prefixedTrie{[]byte("SIP/2.0 200 "), byteTrie{hostileSigma("2A \r\n"), L}},
		byteTrie{hostileSigma("SIP/2.0 \r\n"), 4},
		prefixedTrie{[]byte("AAAAAAAAAAAA"), byteTrie{a256, 2}},
		prefixedTrie{[]byte("SIP/2.0 "), byteTrie{a256, 2}},
	}}, cfgs: plain, beyondErr: 1, beyondOk: 2, split: 2}}
	exploreSpaces(r, flineDrv, fsp, or, nil)
	// --- header line / block
	hsig := hostileSigma("a: \t\r\n")
	exploreSpaces(r, hdrLineDrv, num("hostile/hdrline", hsig, L+1, capCfgs(true)), or, nil)
	exploreSpaces(r, hdrLineDrv, num("hostile/hdrline-nil", hsig, L+1, capCfgs(false)[:1]), or, nil)
	exploreSpaces(r, hdrLineDrv, num("all256/hdrline", a256, d3, capCfgs(true)[:1]), or, nil)
	exploreSpaces(r, hdrsDrv, num("hostile/hdrs", hsig, L+1, capCfgs(true)), or, nil)
	var hp []TrieGen
	for _, p := range []string{"From: ", "Contact: ", "m:<sip:a>,", "CSeq: ", "l: ", "Call-ID: ", "P-Asserted-Identity: ", "Expires: ", "To: a <sip:b>;"} {
		hp = append(hp, prefixedTrie{[]byte(p), byteTrie{hostileSigma("a1 \r\n<>\";=,*"), r.pick(4, 5)}})
		hp = append(hp, prefixedTrie{[]byte(p), byteTrie{a256, 2}})
	}
	exploreSpaces(r, hdrsDrv, []space{{name: "hostile/hdr-values", gen: unionTrie{hp}, cfgs: capCfgs(true), beyondErr: 1, beyondOk: 2, split: 2}}, or, nil)
	// --- whole message: hostile bytes after well-formed prefixes, substitutions into menu messages
	var mp []TrieGen
	for _, p := range []string{"INVITE sip:a SIP/2.0\r\n", "SIP/2.0 200 OK\r\nFrom: <sip:a@b>\r\n", "INVITE sip:a SIP/2.0\r\nContact: <sip:a>,", "INVITE sip:a SIP/2.0\r\nl: 1\r\n", "INVITE sip:a SIP/2.0\r\nCSeq: 1 X\r\n\r"} {
		mp = append(mp, prefixedTrie{[]byte(p), byteTrie{hostileSigma("a: \r\n<,"), r.pick(4, 5)}})
		mp = append(mp, prefixedTrie{[]byte(p), byteTrie{a256, 2}})
	}
	var mcf []Cfg
	for _, f := range []uint{0, 1, 3} {
		mcf = append(mcf, Cfg{Flags: f, HdrCap: -1, ValCap: -1}, Cfg{Flags: f, HdrCap: 0, ValCap: 0}, Cfg{Flags: f, HdrCap: 1, ValCap: 1, Offs: 2, Junk: "ff"})
	}
	noMore := []uint{uint(sipsp.SIPMsgNoMoreDataF)}
	md := msgDrv
	exploreSpaces(r, md, []space{{name: "hostile/msg-after-prefix", gen: unionTrie{mp}, cfgs: mcf, finalFlags: noMore, beyondErr: 1, beyondOk: 2, split: 2}}, or, nil)
	shortMsgs := []string{
		"INVITE sip:a SIP/2.0\r\nf: \"A\" <sip:a@b>;tag=x\r\nl: 2\r\n\r\nab",
		"SIP/2.0 200 OK\r\nm: <sip:a>;q=0.7, sip:c\r\nCSeq: 1 X\r\n\r\n",
		"REGISTER sip:r SIP/2.0\r\nP-Asserted-Identity: <sip:p@q>, <tel:+1>\r\ni: x@1.2.3.4\r\nv: SIP/2.0/UDP h;branch=z9hG4bK7\r\n\r\n",
		"OPTIONS sip:o SIP/2.0\r\nTo: c <sip:c@d> ; tag=z\r\nExpires: 60\r\nX: a\r\n b\r\n\r\n",
	}
	var st1, st2 []TrieGen
	for _, m := range shortMsgs {
		st1 = append(st1, substTrie{[]byte(m), a256, 1})
		st2 = append(st2, substTrie{[]byte(m), []byte(" \r\n:;,<>\"=\x00"), 2})
	}
	exploreSpaces(r, md, []space{{name: "subst1x256/msg", gen: unionTrie{st1[:r.pick(2, 4)]}, cfgs: mcf[:1], finalFlags: noMore, beyondErr: 1, beyondOk: 1, split: 1}}, or, nil)
	exploreSpaces(r, md, []space{{name: "subst2xstructural/msg", gen: unionTrie{st2[:r.pick(1, 4)]}, cfgs: mcf[:1], finalFlags: noMore, beyondErr: 1, beyondOk: 1, split: 1}}, or, nil)
}

// c04Reuse: crash-freedom also for calls on objects that were reset and reused (the E2 history search of C12 with the
// panic part of its oracle reported here).
func c04Reuse(r *Run) {
	sub := &Run{Prop: "C12", Tier: r.Tier, Seed: r.Seed, Start: r.Start, Deadline: r.Deadline, Col: newCollector(), St: newStats(), Bounds: map[string]any{}, Workers: r.Workers}
	checkC12(sub)
	for _, e := range sub.Col.sorted() {
		if e.v.Class != "panic" {
			continue
		}
		cs := *e.v.Case
		cs.Kind = "C04reuse"
		r.Col.add(&Violation{Property: "C04", Site: e.v.Site, Rule: "no-panic-after-reset-and-reuse", Class: "panic", Detail: e.v.Detail, Case: &cs})
	}
	sub.St.Extra = map[string]any{"reuse_histories_states": sub.St.States, "reuse_histories_transitions": sub.St.Transitions}
	sub.St.Outcomes = map[string]int64{}
	sub.St.Samples = nil
	sub.St.CapsHit = nil
	r.St.merge(sub.St)
}

func init() {
	replayers["C04reuse"] = func(prop string, c *Case) []*Violation {
		var out []*Violation
		for _, v := range replayers["C12"]("C12", c) {
			if v.Class == "panic" {
				out = append(out, &Violation{Property: "C04", Site: v.Site, Rule: "no-panic-after-reset-and-reuse", Class: "panic", Detail: v.Detail, Case: c})
			}
		}
		return out
	}
}

func init() {
	register("C04", &checkDef{fn: checkC04,
		rule:        "E1 explorer with the sanity oracle (no panic; offset in [0,len], not before the passed offset unless error; every exported PField dereferenceable; GetMsgSig/String on every reached message object) over hostile byte tries, the full 256-value alphabet at depth 2-3, byte substitutions (<=1 x256, <=2 structural) into well-formed messages, all schedules; exhaustive enumeration of non-parsing entry points; E3 interleaving exploration of independent sessions; non-trivial = input with a suspension and a definitive verdict, or (non-parsing) a call that returned a non-default result",
		quickBudget: 300 * time.Second, thorBudget: 40 * time.Minute})
}
