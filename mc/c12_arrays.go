package main

import (
	"fmt"
	"reflect"
	"unsafe"

	"github.com/intuitivelabs/sipsp"
)

// c12CallerArrays: "a newly created object with the same caller-supplied arrays" is observed through the arrays
// themselves: after history + reset + one complete parse the caller's own arrays hold exactly what a new object's
// arrays hold, and the object still refers to the caller's arrays (same first element, length and capacity).
// Enumerated: every array length 0..12, 16, 40 (both arrays of that length, and one of them with 3), x history
// {none, complete, abandoned at 3 cuts, failed} x reset operation x second message.

type c12ArrCase struct {
	Obj   string // msg | hdrlst | contacts | uriparams | urihdrs
	NH    int
	NV    int
	Hist  int // index into the history menu of the object kind
	Cut   int // bytes of the history input delivered before the reset (0 = no history)
	Reset string
	Then  int
}

var c12ArrMsgs = []string{
	"INVITE sip:a@b SIP/2.0\r\nVia: SIP/2.0/UDP h;branch=z9hG4bK1\r\nFrom: <sip:a@b>;tag=1\r\nTo: <sip:c@d>\r\nCall-ID: x@y\r\nCSeq: 1 INVITE\r\nContact: <sip:e@f>;expires=5, <sip:g@h>;q=0.5\r\nm: sip:i@j\r\nX-1: 1\r\nX-2: 2\r\nX-3: 3\r\nX-4: 4\r\nX-5: 5\r\nl: 0\r\n\r\n",
	"SIP/2.0 200 OK\r\nf: <sip:q@r>;tag=zz\r\nt: <sip:s@t>;tag=yy\r\ni: 99\r\nCSeq: 7 REGISTER\r\nContact: <sip:1@h>,<sip:2@h>,<sip:3@h>,<sip:4@h>,<sip:5@h>,<sip:6@h>,<sip:7@h>,<sip:8@h>,<sip:9@h>,<sip:10@h>,<sip:11@h>,<sip:12@h>\r\nContent-Length: 0\r\n\r\n",
	"OPTIONS sip:x SIP/2.0\r\nCSeq: 2 OPTIONS\r\nContact: <sip:bad>>\r\nl: 0\r\n\r\n", // fails inside the Contact
	"BYE sip:x SIP/2.0\r\nCSeq: 3 BYE\r\nl: 0\r\n\r\n",
}
var c12ArrLists = map[string][]string{
	"contacts":  {"<sip:a@b>;expires=5, <sip:c@d>;q=0.1,sip:e@f\r\nX", "<sip:1@h>,<sip:2@h>,<sip:3@h>,<sip:4@h>,<sip:5@h>,<sip:6@h>,<sip:7@h>,<sip:8@h>,<sip:9@h>,<sip:10@h>,<sip:11@h>\r\nX", "<sip:a@b>, <sip:bad>>\r\nX", "sip:z@w\r\nX"},
	"uriparams": {"transport=udp;lr;ttl=5;x=y ", "a=1;b=2;c=3;d=4;e=5;f=6;g=7;h=8;i=9;j=10;k=11 ", "a=1;;b ", "maddr=1.2.3.4 "},
	"urihdrs":   {"a=1&b=2&subject=hi ", "a=1&b=2&c=3&d=4&e=5&f=6&g=7&h=8&i=9&j=10&k=11 ", "a=1&&b ", "to=x "},
}

// sliceID: (first element address or 0, len, cap)
func sliceID(p unsafe.Pointer, l, c int) string { return fmt.Sprintf("%x/%d/%d", uintptr(p), l, c) }

func evalC12Arr(cs *c12ArrCase) (vs []*Violation) {
	add := func(rule, class, detail string) {
		c := mkCase("C12arr", cs.Obj+"."+cs.Reset, &Cfg{HdrCap: cs.NH, ValCap: cs.NV}, nil, nil)
		c.Extra = map[string]any{"case": *cs} // a copy: callers re-use their case variables
		vs = append(vs, &Violation{Property: "C12", Site: cs.Obj + "." + cs.Reset, Rule: rule, Class: class, Detail: detail, Case: c})
	}
	defer recoverTo3(add)
	cmp := func(un, fn int, ue, fe any, ids [][2]string, arrs [][2]any) {
		if un != fn || ue != fe {
			add("behaves-like-new-after-reset", "verdict", fmt.Sprintf("reset object (%d,%v) new object (%d,%v)", un, ue, fn, fe))
			return
		}
		for i, id := range ids {
			if id[0] != id[1] {
				add("keeps-the-callers-arrays", fmt.Sprintf("array%d-len%d", i, []int{cs.NH, cs.NV}[i]), fmt.Sprintf("object refers to %s, caller supplied %s (addr/len/cap)", id[0], id[1]))
			}
		}
		for i, a := range arrs {
			if !reflect.DeepEqual(a[0], a[1]) {
				add("callers-array-holds-what-a-new-objects-holds", fmt.Sprintf("array%d-len%d", i, []int{cs.NH, cs.NV}[i]), fmt.Sprintf("caller array of the reset object: %+v\nnew object's: %+v", a[0], a[1]))
			}
		}
	}
	switch cs.Obj {
	case "msg":
		hist, then := []byte(c12ArrMsgs[cs.Hist]), []byte(c12ArrMsgs[cs.Then])
		hd, cv := make([]sipsp.Hdr, cs.NH), make([]sipsp.PFromBody, cs.NV)
		u := new(sipsp.PSIPMsg)
		u.Init(nil, hd, cv)
		if cs.Cut > 0 {
			sipsp.ParseSIPMsg(hist[:min(cs.Cut, len(hist))], 0, u, 0)
		}
		switch cs.Reset {
		case "Reset":
			u.Reset()
		case "Init":
			u.Init(nil, hd, cv)
		case "ResetTwice":
			u.Reset()
			u.Reset()
		}
		un, ue := sipsp.ParseSIPMsg(then, 0, u, 0)
		fhd, fcv := make([]sipsp.Hdr, cs.NH), make([]sipsp.PFromBody, cs.NV)
		f := new(sipsp.PSIPMsg)
		f.Init(nil, fhd, fcv)
		fn, fe := sipsp.ParseSIPMsg(then, 0, f, 0)
		cmp(un, fn, ue, fe, [][2]string{
			{sliceID(unsafe.Pointer(unsafe.SliceData(u.HL.Hdrs)), len(u.HL.Hdrs), cap(u.HL.Hdrs)), sliceID(unsafe.Pointer(unsafe.SliceData(hd)), len(hd), cap(hd))},
			{sliceID(unsafe.Pointer(unsafe.SliceData(u.PV.Contacts.Vals)), len(u.PV.Contacts.Vals), cap(u.PV.Contacts.Vals)), sliceID(unsafe.Pointer(unsafe.SliceData(cv)), len(cv), cap(cv))},
		}, [][2]any{{hd, fhd}, {cv, fcv}})
	case "hdrlst":
		hist, then := []byte(c12ArrMsgs[cs.Hist]), []byte(c12ArrMsgs[cs.Then])
		skip := func(b []byte) int { // header block starts after the first line
			for i := range b {
				if b[i] == '\n' {
					return i + 1
				}
			}
			return 0
		}
		hd, cv := make([]sipsp.Hdr, cs.NH), make([]sipsp.PFromBody, cs.NV)
		var hl sipsp.HdrLst
		var pv sipsp.PHdrVals
		hl.Hdrs = hd
		pv.Init(cv)
		if cs.Cut > 0 {
			o := skip(hist)
			sipsp.ParseHeaders(hist[:max(o, min(cs.Cut, len(hist)))], o, &hl, &pv)
		}
		switch cs.Reset {
		case "Reset":
			hl.Reset()
			pv.Reset()
		case "Init":
			hl.Reset()
			pv.Init(cv)
		case "ResetTwice":
			hl.Reset()
			hl.Reset()
			pv.Reset()
			pv.Reset()
		}
		un, ue := sipsp.ParseHeaders(then, skip(then), &hl, &pv)
		fhd, fcv := make([]sipsp.Hdr, cs.NH), make([]sipsp.PFromBody, cs.NV)
		var fhl sipsp.HdrLst
		var fpv sipsp.PHdrVals
		fhl.Hdrs = fhd
		fpv.Init(fcv)
		fn, fe := sipsp.ParseHeaders(then, skip(then), &fhl, &fpv)
		cmp(un, fn, ue, fe, [][2]string{
			{sliceID(unsafe.Pointer(unsafe.SliceData(hl.Hdrs)), len(hl.Hdrs), cap(hl.Hdrs)), sliceID(unsafe.Pointer(unsafe.SliceData(hd)), len(hd), cap(hd))},
			{sliceID(unsafe.Pointer(unsafe.SliceData(pv.Contacts.Vals)), len(pv.Contacts.Vals), cap(pv.Contacts.Vals)), sliceID(unsafe.Pointer(unsafe.SliceData(cv)), len(cv), cap(cv))},
		}, [][2]any{{hd, fhd}, {cv, fcv}})
	case "contacts":
		l := c12ArrLists[cs.Obj]
		hist, then := []byte(l[cs.Hist]), []byte(l[cs.Then])
		cv, fcv := make([]sipsp.PFromBody, cs.NV), make([]sipsp.PFromBody, cs.NV)
		var u, f sipsp.PContacts
		u.Init(cv)
		if cs.Cut > 0 {
			sipsp.ParseAllContactValues(hist[:min(cs.Cut, len(hist))], 0, &u)
		}
		switch cs.Reset {
		case "Reset":
			u.Reset()
		case "Init":
			u.Init(cv)
		case "ResetTwice":
			u.Reset()
			u.Reset()
		}
		un, ue := sipsp.ParseAllContactValues(then, 0, &u)
		f.Init(fcv)
		fn, fe := sipsp.ParseAllContactValues(then, 0, &f)
		cmp(un, fn, ue, fe, [][2]string{{"", ""},
			{sliceID(unsafe.Pointer(unsafe.SliceData(u.Vals)), len(u.Vals), cap(u.Vals)), sliceID(unsafe.Pointer(unsafe.SliceData(cv)), len(cv), cap(cv))},
		}, [][2]any{{0, 0}, {cv, fcv}})
	case "uriparams":
		l := c12ArrLists[cs.Obj]
		hist, then := []byte(l[cs.Hist]), []byte(l[cs.Then])
		cv, fcv := make([]sipsp.URIParam, cs.NV), make([]sipsp.URIParam, cs.NV)
		var u, f sipsp.URIParamsLst
		fl := sipsp.POptTokSpTermF | sipsp.POptTokURIParamF
		u.Init(cv)
		if cs.Cut > 0 {
			sipsp.ParseAllURIParams(hist[:min(cs.Cut, len(hist))], 0, &u, fl)
		}
		switch cs.Reset {
		case "Reset":
			u.Reset()
		case "Init":
			u.Init(cv)
		case "ResetTwice":
			u.Reset()
			u.Reset()
		}
		un, uc, ue := sipsp.ParseAllURIParams(then, 0, &u, fl)
		f.Init(fcv)
		fn, fc, fe := sipsp.ParseAllURIParams(then, 0, &f, fl)
		un, fn = un*1000+uc, fn*1000+fc
		cmp(un, fn, ue, fe, [][2]string{{"", ""},
			{sliceID(unsafe.Pointer(unsafe.SliceData(u.Params)), len(u.Params), cap(u.Params)), sliceID(unsafe.Pointer(unsafe.SliceData(cv)), len(cv), cap(cv))},
		}, [][2]any{{0, 0}, {cv, fcv}})
	case "urihdrs":
		l := c12ArrLists[cs.Obj]
		hist, then := []byte(l[cs.Hist]), []byte(l[cs.Then])
		cv, fcv := make([]sipsp.URIHdr, cs.NV), make([]sipsp.URIHdr, cs.NV)
		var u, f sipsp.URIHdrsLst
		fl := sipsp.POptTokSpTermF | sipsp.POptTokURIHdrF
		u.Init(cv)
		if cs.Cut > 0 {
			sipsp.ParseAllURIHdrs(hist[:min(cs.Cut, len(hist))], 0, &u, fl)
		}
		switch cs.Reset {
		case "Reset":
			u.Reset()
		case "Init":
			u.Init(cv)
		case "ResetTwice":
			u.Reset()
			u.Reset()
		}
		un, uc, ue := sipsp.ParseAllURIHdrs(then, 0, &u, fl)
		f.Init(fcv)
		fn, fc, fe := sipsp.ParseAllURIHdrs(then, 0, &f, fl)
		un, fn = un*1000+uc, fn*1000+fc
		cmp(un, fn, ue, fe, [][2]string{{"", ""},
			{sliceID(unsafe.Pointer(unsafe.SliceData(u.Hdrs)), len(u.Hdrs), cap(u.Hdrs)), sliceID(unsafe.Pointer(unsafe.SliceData(cv)), len(cv), cap(cv))},
		}, [][2]any{{0, 0}, {cv, fcv}})
	}
	return
}

func c12CallerArrays(r *Run) {
	lens := []int{0, 1, 2, 3, 4, 5, 6, 7, 8, 9, 10, 11, 12, 16, 40}
	var cases []c12ArrCase
	for _, obj := range []string{"msg", "hdrlst", "contacts", "uriparams", "urihdrs"} {
		var pairs [][2]int
		for _, n := range lens {
			pairs = append(pairs, [2]int{n, n})
			if obj == "msg" || obj == "hdrlst" {
				pairs = append(pairs, [2]int{n, 3}, [2]int{3, n})
			}
		}
		for _, p := range pairs {
			for hist := 0; hist < 4; hist++ {
				hl := len(c12ArrMsgs[hist])
				if obj != "msg" && obj != "hdrlst" {
					hl = len(c12ArrLists[obj][hist])
				}
				for _, cut := range []int{0, hl, hl / 2, hl - 3, 30} {
					if cut == 0 && hist > 0 {
						continue
					}
					for _, rs := range []string{"Reset", "Init", "ResetTwice"} {
						for then := 0; then < 4; then++ {
							cases = append(cases, c12ArrCase{Obj: obj, NH: p[0], NV: p[1], Hist: hist, Cut: cut, Reset: rs, Then: then})
						}
					}
				}
			}
		}
	}
	parallelFor(r, len(cases), func(c *enumCtx, i int) {
		for _, v := range evalC12Arr(&cases[i]) {
			r.Col.add(v)
		}
		c.st.Evals++
		c.st.States++
		c.st.Transitions += 3
		c.st.addExtra("caller_array_cases", 1)
	})
}

func init() {
	replayers["C12arr"] = func(prop string, c *Case) []*Violation {
		var cs c12ArrCase
		remarshal(c.Extra["case"], &cs)
		return evalC12Arr(&cs)
	}
}
