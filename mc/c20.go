package main

import (
	"bytes"
	"fmt"
	"strings"
	"time"

	"github.com/intuitivelabs/sipsp"
)

func isDig(c byte) bool { return c >= '0' && c <= '9' }

// refIP4Prefix: independent reference for the documented prefix test.
func refIP4Prefix(b []byte) (ok bool, stop int, e sipsp.ErrorHdr, ip [4]byte) {
	pos := 0
	for g := 0; g < 4; g++ {
		val, nd := 0, 0
		for pos < len(b) && isDig(b[pos]) {
			d := int(b[pos] - '0')
			if nd == 3 || val*10+d > 255 {
				if g < 3 {
					return false, pos, sipsp.ErrHdrBad, ip
				}
				ip[g] = byte(val)
				return true, pos, sipsp.ErrHdrMoreValues, ip
			}
			val = val*10 + d
			nd++
			pos++
		}
		ip[g] = byte(val)
		if pos == len(b) {
			if g == 3 && nd > 0 {
				return true, pos, sipsp.ErrHdrOk, ip
			}
			return false, pos, sipsp.ErrHdrMoreBytes, ip
		}
		if nd == 0 {
			return false, pos, sipsp.ErrHdrBad, ip
		}
		if g < 3 {
			if b[pos] != '.' {
				return false, pos, sipsp.ErrHdrBad, ip
			}
			pos++
			continue
		}
		return true, pos, sipsp.ErrHdrBadChar, ip
	}
	return
}

// matchIP4At: does b[o:o+l] consist of exactly four dot-separated groups of 1-3 digits <= 255?
func exactIP4(b []byte) (bool, [4]byte) {
	var ip [4]byte
	pos := 0
	for g := 0; g < 4; g++ {
		val, nd := 0, 0
		for pos < len(b) && isDig(b[pos]) && nd < 3 {
			val = val*10 + int(b[pos]-'0')
			nd++
			pos++
		}
		if nd == 0 || val > 255 {
			return false, ip
		}
		ip[g] = byte(val)
		if g < 3 {
			if pos >= len(b) || b[pos] != '.' {
				return false, ip
			}
			pos++
		}
	}
	return pos == len(b), ip
}

// refContainsIP4: brute force over all substrings.
func refContainsIP4(b []byte) bool {
	for o := 0; o < len(b); o++ {
		if !isDig(b[o]) {
			continue
		}
		for l := 7; l <= 15 && o+l <= len(b); l++ {
			if ok, _ := exactIP4(b[o : o+l]); ok {
				return true
			}
		}
	}
	return false
}

func evalC20(in []byte) (vs []*Violation, has bool) {
	add := func(site, rule, class, detail string) {
		vs = append(vs, &Violation{Property: "C20", Site: site, Rule: rule, Class: class, Detail: detail, Case: mkCase("C20", site, nil, in, nil)})
	}
	defer recoverTo4("IP4Prefix/ContainsIP4", add)
	var dst [4]byte
	ok, n, e := sipsp.IP4Prefix(in, dst[:])
	rok, rn, re, rip := refIP4Prefix(in)
	if ok != rok {
		add("IP4Prefix", "accepts-exactly-prefix-addresses", fmt.Sprintf("%v/%v", rok, ok), fmt.Sprintf("got %v want %v", ok, rok))
	} else {
		if n != rn {
			add("IP4Prefix", "stops-at-first-non-extending-byte", errName(e), fmt.Sprintf("stop %d want %d", n, rn))
		}
		if e != re {
			add("IP4Prefix", "indication-matches-what-follows", errName(re)+"/"+errName(e), fmt.Sprintf("got %v want %v", e, re))
		}
		if ok && dst != rip {
			add("IP4Prefix", "address-bytes-exact", "dst", fmt.Sprintf("got %v want %v", dst, rip))
		}
	}
	var d2 [4]byte
	c, o, l := sipsp.ContainsIP4(in, d2[:])
	rc := refContainsIP4(in)
	has = rc
	if c != rc {
		add("ContainsIP4", "sound-and-complete", fmt.Sprintf("ref=%v", rc), fmt.Sprintf("got %v want %v", c, rc))
	} else if c {
		if o < 0 || l < 0 || o+l > len(in) {
			add("ContainsIP4", "span-is-address", "out-of-range", fmt.Sprintf("span %d+%d", o, l))
		} else if ex, ip := exactIP4(in[o : o+l]); !ex {
			add("ContainsIP4", "span-is-address", "not-an-address", fmt.Sprintf("span %q", in[o:o+l]))
		} else if ip != d2 {
			add("ContainsIP4", "address-bytes-exact", "dst", fmt.Sprintf("span %q bytes %v", in[o:o+l], d2))
		}
		// call-id signature position flag agrees with the reported span
		sig, _ := sipsp.GetCallIDSig(in)
		want := sipsp.SigIPMiddleF
		if o == 0 {
			want = sipsp.SigIPStartF
		} else if o+l == len(in) {
			want = sipsp.SigIPEndF
		}
		if sig&(sipsp.SigIPStartF|sipsp.SigIPEndF|sipsp.SigIPMiddleF) != want {
			add("GetCallIDSig", "ip-position-flag-agrees-with-span", "flag", fmt.Sprintf("sig %#x want flag %#x for span %d+%d of %d", sig, want, o, l, len(in)))
		}
	}
	// the destination may be a part of the text buffer itself (e.g. the caller decodes in place): verdict, stop offset
	// and indication are those of the untouched text, the four bytes are the address
	if len(in) >= 4 && len(in) <= 24 {
		for k := 0; k+4 <= len(in); k++ {
			cp := append([]byte(nil), in...)
			ok2, n2, e2 := sipsp.IP4Prefix(cp, cp[k:k+4])
			if ok2 != ok || n2 != n || e2 != e || (ok && !bytes.Equal(cp[k:k+4], dst[:])) {
				c := mkCase("C20", "IP4Prefix", nil, in, nil)
				vs = append(vs, &Violation{Property: "C20", Site: "IP4Prefix", Rule: "indication-matches-what-follows", Class: "destination-inside-the-text", Case: c,
					Detail: fmt.Sprintf("dst=buf[%d:%d]: (%v,%d,%v) bytes %v; separate dst: (%v,%d,%v) bytes %v", k, k+4, ok2, n2, e2, cp[k:k+4], ok, n, e, dst)})
				break
			}
		}
	}
	return
}

func checkC20(r *Run) {
	r.Assume = []string{"alphabets: 1 2 5 6 . x (len<=10/12), 1 . x (len<=16/18), 1 . 0xb1 0xae (len<=9/11); every byte value 0..255 substituted/inserted at every position of 6 address texts; embedded (near-)valid addresses in 0-6 surrounding bytes from 1 9 . x"}
	run := func(c *enumCtx, s []byte) {
		vs, has := evalC20(s)
		c.st.Evals++
		c.st.Transitions += 3
		if !has {
			c.st.Outcomes["no-address"]++
		}
		if has {
			c.st.Outcomes["contains-address"]++
			c.st.Nontrivial++
			c.st.States++
			if len(c.st.Samples) < 1 && len(s) > 9 {
				c.st.sample(fmt.Sprintf("%q contains an address", s))
			}
		}
		for _, v := range vs {
			r.Col.add(v)
		}
	}
	enumStrings(r, []byte("1256.x"), 0, r.pick(10, 12), nil, run)
	enumStrings(r, []byte("1.x"), 0, r.pick(16, 18), nil, run)
	// bytes with the high bit set that look like a digit / dot once masked to 7 bits
	enumStrings(r, []byte("1.\xb1\xae"), 0, r.pick(9, 11), nil, run)
	// every byte value substituted / inserted at every position of a few address texts
	bases := []string{"1.2.3.4", "12.34.56.78", "x1.2.3.4y", "255.255.255.255", "1.2.3", "91.2.3.47"}
	parallelFor(r, len(bases)*256, func(c *enumCtx, i int) {
		a, b := []byte(bases[i/256]), byte(i%256)
		for p := 0; p <= len(a); p++ {
			ins := append(append(append([]byte(nil), a[:p]...), b), a[p:]...)
			run(c, ins)
			if p < len(a) {
				sub := append([]byte(nil), a...)
				sub[p] = b
				run(c, sub)
			}
		}
	})
	addrs := []string{"1.2.3.4", "255.255.255.255", "256.1.1.1", "1.2.3.256", "1.2.3.2540", "01.02.03.04", "1.2.3", "1..2.3.4", "1.2.3.4.5", "999.1.2.3", "25.25.25.25", "192.168.0.1", "0.0.0.0", "1.2.3.", ".1.2.3.4", "1111.2.3.4", "1.2222.3.4"}
	parallelFor(r, len(addrs), func(c *enumCtx, i int) {
		a := []byte(addrs[i])
		sig := []byte("19.x")
		var rec func(pre, post []byte, depth int)
		emit := func(pre, post []byte) {
			s := append(append(append([]byte(nil), pre...), a...), post...)
			run(c, s)
		}
		rec = func(pre, post []byte, depth int) {
			emit(pre, post)
			if depth == 0 {
				return
			}
			for _, x := range sig {
				rec(append([]byte{x}, pre...), post, depth-1)
				if len(pre) == 0 {
					rec(pre, append(append([]byte(nil), post...), x), depth-1)
				}
			}
		}
		rec(nil, nil, r.pick(5, 6))
		// long surroundings (several hundred bytes) of fillers that stress the dot / digit scanning
		for _, fill := range []string{"x", "1", ".", "1.", "12.", "999.", "x1", "1234"} {
			for _, n := range []int{7, 64, 255, 256, 300} {
				pre := []byte(strings.Repeat(fill, n/len(fill)+1))[:n]
				for _, sepa := range []string{"", "x", ".", " "} {
					for _, post := range []string{"", "x", "9", ".5", strings.Repeat(fill, 20)} {
						s := append(append(append(append([]byte(nil), pre...), sepa...), a...), post...)
						run(c, s)
					}
				}
			}
		}
	})
	// addresses far into long texts (beyond 255 bytes and beyond the 16-bit range used elsewhere in the library)
	big := bytes.Repeat([]byte("x"), 140000)
	c0 := &enumCtx{r: r, st: newStats()}
	for _, at := range []int{253, 254, 255, 256, 257, 65533, 65534, 65535, 65536, 65537, 66000, 131072, 131089} {
		for _, a := range []string{"1.2.3.4", "255.255.255.255", "10.0.0.1x"} {
			s := append(append(append([]byte(nil), big[:at]...), a...), "yy"...)
			run(c0, s)
		}
	}
	// many near misses before the address: 1, 2, 4, ..., 16384 repetitions (and one less / one more) of a fragment that
	// has dots or digit groups but never starts an address, then an address (however many candidates were tried
	// before, the search goes on)
	for _, frag := range []string{".", "a.", "1.", "1.2.", "999.", "1.2.3.", "1.2.3.x", "..1", "256.1.1.1 ", "1.2.3.256,"} {
		for k := 1; k <= 16384; k *= 2 {
			for _, kk := range []int{k - 1, k, k + 1} {
				if kk < 1 || kk*len(frag) > 140000 {
					continue
				}
				for _, a := range []string{"7.7.7.7", " 10.20.30.40;tail"} {
					run(c0, []byte(strings.Repeat(frag, kk)+a))
				}
				run(c0, []byte(strings.Repeat(frag, kk)))
			}
		}
	}
	r.St.merge(c0.st)
}

func init() {
	replayers["C20"] = func(prop string, c *Case) []*Violation { vs, _ := evalC20(c.input()); return vs }
	register("C20", &checkDef{fn: checkC20,
		rule:        "E4: every string over the digit/dot/other alphabets up to the bound is given to the real IP4Prefix / ContainsIP4 / GetCallIDSig and compared with a brute-force substring reference and a reference prefix scanner; non-trivial = strings that contain an address",
		quickBudget: 120 * time.Second, thorBudget: 15 * time.Minute})
}
