package main

import (
	"bytes"
	"fmt"
	"strings"
	"time"

	"github.com/intuitivelabs/sipsp"
)

var hdrTable = map[string]sipsp.HdrT{
	"from": sipsp.HdrFrom, "f": sipsp.HdrFrom, "to": sipsp.HdrTo, "t": sipsp.HdrTo, "call-id": sipsp.HdrCallID, "i": sipsp.HdrCallID,
	"cseq": sipsp.HdrCSeq, "via": sipsp.HdrVia, "v": sipsp.HdrVia, "max-forwards": sipsp.HdrMaxFwd, "content-length": sipsp.HdrCLen, "l": sipsp.HdrCLen,
	"contact": sipsp.HdrContact, "m": sipsp.HdrContact, "expires": sipsp.HdrExpires, "user-agent": sipsp.HdrUA, "record-route": sipsp.HdrRecordRoute,
	"route": sipsp.HdrRoute, "p-asserted-identity": sipsp.HdrPAI,
}

var mthTable = map[string]sipsp.SIPMethod{
	"REGISTER": sipsp.MRegister, "INVITE": sipsp.MInvite, "ACK": sipsp.MAck, "BYE": sipsp.MBye, "PRACK": sipsp.MPrack, "CANCEL": sipsp.MCancel,
	"OPTIONS": sipsp.MOptions, "SUBSCRIBE": sipsp.MSubscribe, "NOTIFY": sipsp.MNotify, "UPDATE": sipsp.MUpdate, "INFO": sipsp.MInfo, "REFER": sipsp.MRefer,
	"PUBLISH": sipsp.MPublish, "MESSAGE": sipsp.MMessage,
}

func asciiLower(b []byte) string {
	o := make([]byte, len(b))
	for i, c := range b {
		if c >= 'A' && c <= 'Z' {
			c += 'a' - 'A'
		}
		o[i] = c
	}
	return string(o)
}

func refHdrType(n []byte) sipsp.HdrT {
	if t, ok := hdrTable[asciiLower(n)]; ok {
		return t
	}
	return sipsp.HdrOther
}

func refMethod(n []byte) sipsp.SIPMethod {
	if m, ok := mthTable[string(n)]; ok {
		return m
	}
	return sipsp.MOther
}

func nameClass(n []byte) string {
	if len(n) == 0 {
		return "empty-name"
	}
	if _, ok := hdrTable[asciiLower(n)]; ok {
		return "table-name"
	}
	return "non-table-name"
}

// evalC16 checks both lookups on one name; returns whether the name is a table name.
func evalC16(n []byte, parser bool) (vs []*Violation, known bool) {
	add := func(site, rule, class, detail string) {
		c := mkCase("C16", site, nil, n, nil)
		c.Extra = map[string]any{"parser": parser}
		vs = append(vs, &Violation{Property: "C16", Site: site, Rule: rule, Class: class, Detail: detail, Case: c})
	}
	var ht sipsp.HdrT
	if _, pm := guarded(func() string { ht = sipsp.GetHdrType(n); return "" }); pm != "" {
		add("GetHdrType", "total", nameClass(n), "panic: "+pm)
	} else if want := refHdrType(n); ht != want {
		add("GetHdrType", "exactly-the-table", nameClass(n), fmt.Sprintf("got %v want %v", ht, want))
	}
	var m sipsp.SIPMethod
	if _, pm := guarded(func() string { m = sipsp.GetMethodNo(n); return "" }); pm != "" {
		add("GetMethodNo", "total", nameClass(n), "panic: "+pm)
	} else if want := refMethod(n); m != want {
		cl := "non-table-name"
		if _, ok := mthTable[strings.ToUpper(string(n))]; ok {
			cl = "table-name-or-case-variant"
		}
		add("GetMethodNo", "exactly-the-table", cl, fmt.Sprintf("got %d want %d", m, want))
	}
	_, k1 := hdrTable[asciiLower(n)]
	_, k2 := mthTable[string(n)]
	known = k1 || k2
	if parser && len(n) > 0 && len(n) < 60000 && tokenLegal(n) { // the parsers address at most 65,535 bytes
		// the header parser assigns exactly this classification
		line := append(append([]byte(nil), n...), []byte(": v\r\nX")...)
		var h sipsp.Hdr
		_, e := sipsp.ParseHdrLine(line, 0, &h, nil)
		if e != 0 {
			add("ParseHdrLine", "parser-accepts-token-name", "reject", fmt.Sprintf("verdict %v", e))
		} else if want := refHdrType(n); h.Type != want {
			add("ParseHdrLine", "parser-assigns-table-type", nameClass(n), fmt.Sprintf("got %v want %v", h.Type, want))
		}
	}
	return
}

func tokenLegal(n []byte) bool {
	for _, c := range n {
		if c <= ' ' || c == ':' || c >= 127 {
			return false
		}
	}
	return true
}

func checkC16(r *Run) {
	r.Assume = []string{"reference = Go map of lower-cased long/compact header names and exact method names (mc/c16.go)"}
	run := func(c *enumCtx, n []byte, parser bool) {
		vs, known := evalC16(n, parser)
		c.st.Evals++
		c.st.Transitions += 2
		if !known {
			c.st.Outcomes["other"]++
		}
		if known {
			c.st.Outcomes["table-name"]++
			c.st.Nontrivial++
			c.st.States++
		}
		for _, v := range vs {
			r.Col.add(v)
		}
	}
	// all byte strings of length 0..3 over 256 values
	enumStrings(r, all256(), 0, 3, nil, func(c *enumCtx, s []byte) { run(c, s, false) })
	// every lower-case name of the lengths of the short table names (4: from cseq, 5: route, 6: -, 7: call-id contact
	// expires) over a-z and '-': a lookup that compares a hash / checksum / prefix instead of the name itself collides
	// somewhere in a space this size (27^7 = 1.0e10 names)
	lean := func(c *enumCtx, s []byte) {
		c.st.Evals++
		c.st.Transitions++
		want, ok := hdrTable[string(s)]
		if !ok {
			want = sipsp.HdrOther
		}
		mw, mok := sipsp.MOther, false // all-lower-case names are never methods
		if sipsp.GetHdrType(s) != want || sipsp.GetMethodNo(s) != mw || mok {
			run(c, append([]byte(nil), s...), false)
		}
	}
	enumStrings(r, []byte("abcdefghijklmnopqrstuvwxyz-"), 4, 7, nil, lean)
	if !r.quick() {
		// thorough: length 4 over all 256 byte values, length 5 over the letters of the short table names
		// (CSeq, Via, To, From, Route, BYE, ACK, INFO, ...) in both cases, through the parser as well
		enumStrings(r, all256(), 4, 4, nil, func(c *enumCtx, s []byte) { run(c, s, false) })
		enumStrings(r, []byte("cseqviatofrmuCSEQVIATOFRMU"), 5, 5, nil, func(c *enumCtx, s []byte) { run(c, s, true) })
		enumStrings(r, []byte("routeackbyinfROUTEACKBYINF-"), 5, 5, nil, func(c *enumCtx, s []byte) { run(c, s, false) })
		r.Bounds["thorough_extra"] = "len 4 over all 256 byte values; len 5 over two 26/27-letter alphabets"
	}
	// all 2^letters case variants of every table name, one-edit neighbours
	var names [][]byte
	for n := range hdrTable {
		names = append(names, []byte(n))
	}
	for n := range mthTable {
		names = append(names, []byte(n))
	}
	parallelFor(r, len(names), func(c *enumCtx, i int) {
		n := names[i]
		var letters []int
		for j, ch := range n {
			if (ch >= 'a' && ch <= 'z') || (ch >= 'A' && ch <= 'Z') {
				letters = append(letters, j)
			}
		}
		v := make([]byte, len(n))
		for mask := 0; mask < 1<<len(letters); mask++ {
			copy(v, n)
			for k, j := range letters {
				if mask>>k&1 == 1 {
					v[j] ^= 0x20
				}
			}
			run(c, v, mask%64 == 0)
		}
		// one-edit neighbours over all 256 values (of the lower- and upper-case spelling)
		for _, base := range [][]byte{bytes.ToLower(n), bytes.ToUpper(n)} {
			for p := 0; p <= len(base); p++ {
				for x := 0; x < 256; x++ {
					ins := append(append(append([]byte(nil), base[:p]...), byte(x)), base[p:]...)
					run(c, ins, true)
					if p < len(base) {
						sub := append([]byte(nil), base...)
						sub[p] = byte(x)
						run(c, sub, true)
					}
				}
				if p < len(base) {
					del := append(append([]byte(nil), base[:p]...), base[p+1:]...)
					run(c, del, true)
				}
				if p+1 < len(base) {
					tr := append([]byte(nil), base...)
					tr[p], tr[p+1] = tr[p+1], tr[p]
					run(c, tr, true)
				}
			}
			// two adjacent bytes replaced by every pair of byte values (65,536 pairs per position), one byte replaced by
			// every pair, two bytes replaced by every single byte: multi-byte sequences a text-aware compare might fold
			for p := 0; p < len(base); p++ {
				for x := 0; x < 65536; x++ {
					pair := []byte{byte(x >> 8), byte(x)}
					if p+1 < len(base) {
						run(c, append(append(append([]byte(nil), base[:p]...), pair...), base[p+2:]...), false)
					}
					run(c, append(append(append([]byte(nil), base[:p]...), pair...), base[p+1:]...), false)
				}
				if p+1 < len(base) {
					for x := 0; x < 256; x++ {
						run(c, append(append(append([]byte(nil), base[:p]...), byte(x)), base[p+2:]...), false)
					}
				}
			}
			// the name padded with 1..24 copies of one byte (NUL, SP, '0', '-', 0xff, the name's own last byte), after or
			// before it: still another name, whatever key width or bucket function the lookup uses
			for _, pad := range []byte{0x00, ' ', '0', '-', 0xff, base[len(base)-1]} {
				for k := 1; k <= 24; k++ {
					run(c, append(append([]byte(nil), base...), bytes.Repeat([]byte{pad}, k)...), true)
					run(c, append(bytes.Repeat([]byte{pad}, k), base...), true)
				}
			}
		}
	})
	// through the header parser with white space before the colon, and with names that are a table name plus bytes a
	// "trim" might strip (VT, FF, NUL, NBSP, NEL, EM SPACE, ideographic space, BOM): accepted names keep the lookup's type
	affixes := []string{"\x0b", "\x0c", "\x00", "\x1f", "\x7f", "\xc2\xa0", "\xc2\x85", "\xe2\x80\x83", "\xe3\x80\x80", "\xef\xbb\xbf", "\xa0", "\x85"}
	parallelFor(r, len(names), func(c *enumCtx, i int) {
		for _, base := range [][]byte{names[i], bytes.ToUpper(names[i])} {
			var cands [][]byte
			cands = append(cands, base)
			for _, a := range affixes {
				cands = append(cands, append([]byte(a), base...), append(append([]byte(nil), base...), a...))
			}
			for _, n := range cands {
				seps := []string{":", " :", "\t:", " \t :", "\r\n :"}
				if len(n) == len(base) {
					// runs of 2..80 SP / HT / alternating before the colon (HCOLON allows any amount)
					for k := 2; k <= 80; k++ {
						seps = append(seps, strings.Repeat(" ", k)+":", strings.Repeat("\t", k)+":", strings.Repeat(" \t", k)[:k]+":")
					}
				}
				for _, sep := range seps {
					line := append(append(append([]byte(nil), n...), sep...), " v\r\nX"...)
					var h sipsp.Hdr
					_, e := sipsp.ParseHdrLine(line, 0, &h, nil)
					c.st.Evals++
					c.st.Transitions++
					if e != 0 {
						continue // the parser may refuse the name; if it accepts it, the type is the lookup's
					}
					if want := refHdrType(h.Name.Get(line)); h.Type != want || !bytes.Equal(h.Name.Get(line), n) {
						cs := mkCase("C16line", "ParseHdrLine", nil, line, nil)
						r.Col.add(&Violation{Property: "C16", Site: "ParseHdrLine", Rule: "parser-assigns-table-type", Class: "ws-before-colon/" + nameClass(n), Detail: fmt.Sprintf("%q: name %q type %v want %v", line, h.Name.Get(line), h.Type, want), Case: cs})
					}
				}
			}
		}
	})
	// the registered SIP header field names and methods (IANA registry, plus common extensions): every one that is
	// not in the statement's list is 'other', in every spelling used on the wire (as registered, lower, upper)
	real := []string{"Accept", "Accept-Contact", "Accept-Encoding", "Accept-Language", "Accept-Resource-Priority", "Alert-Info", "Allow", "Allow-Events", "Answer-Mode", "Authentication-Info",
		"Authorization", "Call-Info", "Cellular-Network-Info", "Contact", "Content-Disposition", "Content-Encoding", "Content-ID", "Content-Language", "Content-Length", "Content-Type", "CSeq", "Date",
		"Encryption", "Error-Info", "Event", "Expires", "Feature-Caps", "Flow-Timer", "From", "Geolocation", "Geolocation-Error", "Geolocation-Routing", "Hide", "History-Info", "Identity", "Identity-Info",
		"Info-Package", "In-Reply-To", "Join", "Max-Breadth", "Max-Forwards", "MIME-Version", "Min-Expires", "Min-SE", "Organization", "Origination-Id", "P-Access-Network-Info", "P-Answer-State",
		"P-Asserted-Identity", "P-Asserted-Service", "P-Associated-URI", "P-Called-Party-ID", "P-Charge-Info", "P-Charging-Function-Addresses", "P-Charging-Vector", "P-DCS-Billing-Info", "P-DCS-LAES",
		"P-DCS-OSPS", "P-DCS-Redirect", "P-DCS-Trace-Party-ID", "P-Early-Media", "P-Media-Authorization", "P-Preferred-Identity", "P-Preferred-Service", "P-Private-Network-Indication", "P-Profile-Key",
		"P-Refused-URI-List", "P-Served-User", "P-User-Database", "P-Visited-Network-ID", "Path", "Permission-Missing", "Policy-Contact", "Policy-ID", "Priority", "Priority-Share", "Priv-Answer-Mode",
		"Privacy", "Proxy-Authenticate", "Proxy-Authorization", "Proxy-Require", "RAck", "Reason", "Reason-Phrase", "Record-Route", "Recv-Info", "Refer-Events-At", "Refer-Sub", "Refer-To", "Referred-By",
		"Reject-Contact", "Relayed-Charge", "Replaces", "Reply-To", "Request-Disposition", "Require", "Resource-Priority", "Resource-Share", "Response-Key", "Response-Source", "Restoration-Info", "Retry-After",
		"Route", "RSeq", "Security-Client", "Security-Server", "Security-Verify", "Server", "Service-Interact-Info", "Service-Route", "Session-Expires", "Session-ID", "SIP-ETag", "SIP-If-Match", "Subject",
		"Subscription-State", "Supported", "Suppress-If-Match", "Target-Dialog", "Timestamp", "To", "Trigger-Consent", "Unsupported", "User-Agent", "User-to-User", "Via", "Warning", "WWW-Authenticate",
		"X-Forwarded-For", "Diversion", "Remote-Party-ID", "P-Asserted-Identities", "Contacts", "Routes", "Vias", "CSeqs", "Call-IDs", "Froms", "Content-Lengths", "Max-Forward", "User-Agents", "Record-Routes",
		// compact forms of other headers (RFC 3261 and extensions)
		"a", "b", "c", "d", "e", "j", "k", "n", "o", "r", "s", "u", "x", "y",
		// methods (none is a header name; header names are not methods)
		"INVITE", "ACK", "BYE", "CANCEL", "OPTIONS", "REGISTER", "PRACK", "SUBSCRIBE", "NOTIFY", "PUBLISH", "INFO", "REFER", "MESSAGE", "UPDATE"}
	parallelFor(r, len(real), func(c *enumCtx, i int) {
		for _, n := range [][]byte{[]byte(real[i]), bytes.ToLower([]byte(real[i])), bytes.ToUpper([]byte(real[i]))} {
			run(c, n, true)
		}
	})
	c16Blocks(r)
	// method <-> name round trip
	for m := sipsp.MUndef + 1; m < sipsp.MOther; m++ {
		if got := sipsp.GetMethodNo(m.Name()); got != m {
			r.Col.add(&Violation{Property: "C16", Site: "SIPMethod.Name", Rule: "name-roundtrip", Class: "known-method", Detail: fmt.Sprintf("%d -> %q -> %d", m, m.Name(), got), Case: mkCase("C16", "GetMethodNo", nil, m.Name(), nil)})
		}
		r.St.Evals++
	}
	// longer / shorter names: table names with suffixes and prefixes of 1..8 bytes (hash buckets depend on the length
	// modulo 4 and on the first byte), every proper prefix and suffix, doubled
	for _, n := range names {
		var xs [][]byte
		for l := 1; l <= 8; l++ {
			for _, f := range []byte("a-Z9") {
				pad := bytes.Repeat([]byte{f}, l)
				xs = append(xs, append(append([]byte(nil), n...), pad...), append(append([]byte(nil), pad...), n...))
			}
		}
		for k := 1; k < len(n); k++ {
			xs = append(xs, n[:k], n[k:])
		}
		xs = append(xs, append(append([]byte(nil), n...), n...), append([]byte("x-"), n...), append(append([]byte(nil), n...), '-'))
		// names longer than 255 / 256 / 512 / 65535 bytes that start (or end) with a table name
		for _, l := range []int{251, 252, 253, 254, 255, 256, 257, 258, 259, 260, 512, 768, 65535, 65536} {
			for _, f := range []byte("x-") {
				xs = append(xs, append(append([]byte(nil), n...), bytes.Repeat([]byte{f}, l)...), append(bytes.Repeat([]byte{f}, l), n...))
			}
		}
		for _, x := range xs {
			vs, _ := evalC16(x, true)
			r.St.Evals++
			for _, v := range vs {
				r.Col.add(v)
			}
		}
	}
	// (run last: a violation damages process-wide tables)
	// operation sequence: a caller builds a request line by appending to the slice Name() hands out, then classifies
	// again; appending to a returned name must never change what later lookups return (the tables are process-wide)
	for m := sipsp.MUndef + 1; m < sipsp.MOther; m++ {
		for _, suffix := range []string{" ", " sip:p.example.com SIP/2.0\r\n", strings.Repeat("x", 100)} {
			line := append(m.Name(), suffix...)
			_ = line
			for name, want := range mthTable {
				r.St.Evals++
				if got := sipsp.GetMethodNo([]byte(name)); got != want || string(want.Name()) != name {
					r.Col.add(&Violation{Property: "C16", Site: "SIPMethod.Name", Rule: "name-roundtrip", Class: "after-append-to-returned-name",
						Detail: fmt.Sprintf("after append(%s.Name(), %q...): GetMethodNo(%q)=%d want %d, Name()=%q", mthName(m), suffix, name, got, want, want.Name()),
						Case:   mkCase("C16append", "SIPMethod.Name", nil, []byte(suffix), nil)})
				}
			}
		}
	}
}

func mthName(m sipsp.SIPMethod) string {
	for n, x := range mthTable {
		if x == m {
			return n
		}
	}
	return fmt.Sprint(int(m))
}

func init() {
	// replays the whole append sequence (the damage, if any, is to process-wide tables and stays)
	replayers["C16line"] = func(prop string, c *Case) []*Violation {
		line := c.input()
		var h sipsp.Hdr
		if _, e := sipsp.ParseHdrLine(line, 0, &h, nil); e != 0 {
			return nil
		}
		n := line[:bytes.IndexAny(line, ": \t\r")]
		if want := refHdrType(h.Name.Get(line)); h.Type != want || !bytes.Equal(h.Name.Get(line), n) {
			return []*Violation{{Property: prop, Site: "ParseHdrLine", Rule: "parser-assigns-table-type", Class: "ws-before-colon/" + nameClass(n), Detail: fmt.Sprintf("name %q type %v want %v", h.Name.Get(line), h.Type, want), Case: c}}
		}
		return nil
	}
	replayers["C16append"] = func(prop string, c *Case) []*Violation {
		var vs []*Violation
		for m := sipsp.MUndef + 1; m < sipsp.MOther; m++ {
			_ = append(m.Name(), c.input()...)
			for name, want := range mthTable {
				if got := sipsp.GetMethodNo([]byte(name)); got != want || string(want.Name()) != name {
					vs = append(vs, &Violation{Property: prop, Site: "SIPMethod.Name", Rule: "name-roundtrip", Class: "after-append-to-returned-name", Detail: fmt.Sprintf("GetMethodNo(%q)=%d want %d", name, got, want), Case: c})
				}
			}
		}
		return vs
	}
	replayers["C16"] = func(prop string, c *Case) []*Violation {
		p, _ := c.Extra["parser"].(bool)
		vs, _ := evalC16(c.input(), p)
		return vs
	}
	register("C16", &checkDef{fn: checkC16,
		rule:        "E4: GetHdrType/GetMethodNo on every byte string of length 0..3 (256 values), all 2^letters case variants of every table name, every one-edit neighbour (insert/substitute over 256 values, delete, transpose) compared with a map reference; ParseHdrLine's type for token-legal names; Name round trip; non-trivial = names that are table names",
		quickBudget: 200 * time.Second, thorBudget: 15 * time.Minute})
}
