//go:build verifhook

package main

import "github.com/intuitivelabs/sipsp"

// only compiled when run.sh found package-level state written after init and built with the generated overlay,
// which adds sipsp.VerifPointHook and the verifPoint calls.
func init() {
	e3SetHook = func(f func(string)) { sipsp.VerifPointHook = f }
}
