package main

// E4: bounded product enumeration (all strings <= L over an alphabet, mixed-radix products),
// sharded over the worker pool.

import (
	"sync"
)

type enumCtx struct {
	r   *Run
	st  *Stats
	id  int
	tmp []byte
	any any // per-worker scratch owned by the check
}

// enumStrings calls fn for every string over sigma of length minLen..maxLen (each exactly once).
// The string passed is prefix+s and must not be retained.
func enumStrings(r *Run, sigma []byte, minLen, maxLen int, prefix []byte, fn func(c *enumCtx, s []byte)) {
	type job struct{ head []byte }
	var jobs []job
	// shard on the first two symbols
	hl := 2
	if maxLen < 2 {
		hl = maxLen
	}
	var gen func(cur []byte)
	gen = func(cur []byte) {
		if len(cur) == hl {
			jobs = append(jobs, job{append([]byte(nil), cur...)})
			return
		}
		for _, c := range sigma {
			gen(append(cur, c))
		}
	}
	gen(nil)
	ch := make(chan job, 256)
	var wg sync.WaitGroup
	for i := 0; i < r.Workers; i++ {
		wg.Add(1)
		go func(id int) {
			defer wg.Done()
			c := &enumCtx{r: r, st: newStats(), id: id}
			buf := make([]byte, 0, len(prefix)+maxLen+8)
			for j := range ch {
				if r.expired() {
					c.st.Exhaustive = false
					continue
				}
				buf = append(buf[:0], prefix...)
				buf = append(buf, j.head...)
				var rec func(b []byte)
				rec = func(b []byte) {
					if n := len(b) - len(prefix); n >= minLen && n >= hl {
						fn(c, b)
					}
					if len(b)-len(prefix) >= maxLen {
						return
					}
					for _, x := range sigma {
						rec(append(b, x))
					}
				}
				rec(buf)
			}
			r.St.merge(c.st)
		}(i)
	}
	// strings shorter than the shard head are handled here (single-threaded, tiny)
	c0 := &enumCtx{r: r, st: newStats(), id: -1}
	var short func(b []byte)
	short = func(b []byte) {
		n := len(b) - len(prefix)
		if n >= minLen && n < hl {
			fn(c0, b)
		}
		if n+1 >= hl {
			return
		}
		for _, x := range sigma {
			short(append(b, x))
		}
	}
	if hl > 0 {
		short(append([]byte(nil), prefix...))
	}
	r.St.merge(c0.st)
	for _, j := range jobs {
		ch <- j
	}
	close(ch)
	wg.Wait()
	if r.expired() {
		r.St.Exhaustive = false
		r.St.CapsHit = append(r.St.CapsHit, "deadline")
	}
}

// parallelFor runs fn(i) for i in [0,n) on the worker pool with per-worker contexts.
func parallelFor(r *Run, n int, fn func(c *enumCtx, i int)) {
	ch := make(chan int, 256)
	var wg sync.WaitGroup
	for w := 0; w < r.Workers; w++ {
		wg.Add(1)
		go func(id int) {
			defer wg.Done()
			c := &enumCtx{r: r, st: newStats(), id: id}
			for i := range ch {
				if r.expired() {
					c.st.Exhaustive = false
					continue
				}
				fn(c, i)
			}
			r.St.merge(c.st)
		}(w)
	}
	for i := 0; i < n; i++ {
		ch <- i
	}
	close(ch)
	wg.Wait()
	if r.expired() {
		r.St.Exhaustive = false
		r.St.CapsHit = append(r.St.CapsHit, "deadline")
	}
}

func all256() []byte {
	b := make([]byte, 256)
	for i := range b {
		b[i] = byte(i)
	}
	return b
}
