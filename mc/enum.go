package main

// E4: bounded product enumeration (all strings <= L over an alphabet, mixed-radix products),
// sharded over the worker pool.

import (
	"fmt"
	"sync"
)

// Worker functions run under recover: a panic inside the library on some case must become a (replayable)
// violation of the running property instead of killing the checker. The registered closures let finish()
// re-execute exactly that case sequentially (5x) before it is reported.
var (
	workerFnsMu sync.Mutex
	workerFns   []func(arg any)
)

func regWorkerFn(f func(arg any)) int {
	workerFnsMu.Lock()
	defer workerFnsMu.Unlock()
	workerFns = append(workerFns, f)
	return len(workerFns) - 1
}

func workerPanic(r *Run, id int, arg any, text string, pm any) {
	cs := &Case{Kind: "worker-panic", Driver: "worker", Text: text, Extra: map[string]any{"fn": id, "arg": arg}}
	r.Col.add(&Violation{Property: r.Prop, Site: "library-call", Rule: "no-panic-while-checking", Class: "panic:" + panicClass(fmt.Sprint(pm)), Detail: fmt.Sprintf("panic: %v on %s", pm, text), Case: cs})
}

func init() {
	replayers["worker-panic"] = func(prop string, c *Case) (out []*Violation) {
		id, ok := c.Extra["fn"].(int)
		if !ok || id >= len(workerFns) {
			return nil // only replayable inside the run that found it
		}
		defer func() {
			if p := recover(); p != nil {
				out = []*Violation{{Property: prop, Site: "library-call", Rule: "no-panic-while-checking", Class: "panic:" + panicClass(fmt.Sprint(p)), Case: c}}
			}
		}()
		workerFns[id](c.Extra["arg"])
		return nil
	}
}

type enumCtx struct {
	hb  *hbSlot
	cur []byte
	r   *Run
	st  *Stats
	id  int
	tmp []byte
	any any // per-worker scratch owned by the check
}

// enumStrings calls fn for every string over sigma of length minLen..maxLen (each exactly once).
// The string passed is prefix+s and must not be retained.
func enumStrings(r *Run, sigma []byte, minLen, maxLen int, prefix []byte, fn0 func(c *enumCtx, s []byte)) {
	fid := regWorkerFn(func(arg any) { fn0(&enumCtx{r: r, st: newStats(), id: -2}, []byte(arg.(string))) })
	fn := func(c *enumCtx, s []byte) {
		defer func() {
			if p := recover(); p != nil {
				workerPanic(r, fid, string(s), fmt.Sprintf("%q", s), p)
			}
		}()
		// heartbeat: one registration per worker, the current string is published by a plain store (the watchdog
		// decides on lack of progress of the worker's counters, see watchdog.go)
		c.cur = s
		if c.hb == nil {
			c.hb = newHB()
			c.hb.st = c.st
			c.hb.begin(func() *Violation {
				in := append([]byte(nil), c.cur...)
				cs := &Case{Kind: "worker-panic", Driver: "worker", Text: fmt.Sprintf("%q", in), Extra: map[string]any{"fn": fid, "arg": string(in)}}
				return &Violation{Property: r.Prop, Site: "library-call", Detail: fmt.Sprintf("case %q", in), Case: cs}
			})
		}
		fn0(c, s)
	}
	type job struct{ head []byte }
	var jobs []job
	// shard on the first two symbols
	hl := 2
	if maxLen < 2 {
		hl = maxLen
	}
	var gen func(cur []byte)
	gen = func(cur []byte) {
		if len(cur) == hl {
			jobs = append(jobs, job{append([]byte(nil), cur...)})
			return
		}
		for _, c := range sigma {
			gen(append(cur, c))
		}
	}
	gen(nil)
	ch := make(chan job, 256)
	var wg sync.WaitGroup
	for i := 0; i < r.Workers; i++ {
		wg.Add(1)
		go func(id int) {
			defer wg.Done()
			c := &enumCtx{r: r, st: newStats(), id: id}
			buf := make([]byte, 0, len(prefix)+maxLen+8)
			for j := range ch {
				if r.expired() {
					c.st.Exhaustive = false
					continue
				}
				buf = append(buf[:0], prefix...)
				buf = append(buf, j.head...)
				var rec func(b []byte)
				rec = func(b []byte) {
					if n := len(b) - len(prefix); n >= minLen && n >= hl {
						fn(c, b)
					}
					if len(b)-len(prefix) >= maxLen {
						return
					}
					for _, x := range sigma {
						rec(append(b, x))
					}
				}
				rec(buf)
			}
			if c.hb != nil {
				c.hb.end()
			}
			r.St.merge(c.st)
		}(i)
	}
	// strings shorter than the shard head are handled here (single-threaded, tiny)
	c0 := &enumCtx{r: r, st: newStats(), id: -1}
	var short func(b []byte)
	short = func(b []byte) {
		n := len(b) - len(prefix)
		if n >= minLen && n < hl {
			fn(c0, b)
		}
		if n+1 >= hl {
			return
		}
		for _, x := range sigma {
			short(append(b, x))
		}
	}
	if hl > 0 {
		short(append([]byte(nil), prefix...))
	}
	if c0.hb != nil {
		c0.hb.end()
	}
	r.St.merge(c0.st)
	for _, j := range jobs {
		ch <- j
	}
	close(ch)
	wg.Wait()
	if r.expired() {
		r.St.Exhaustive = false
		r.St.CapsHit = append(r.St.CapsHit, "deadline")
	}
}

// parallelFor runs fn(i) for i in [0,n) on the worker pool with per-worker contexts.
func parallelFor(r *Run, n int, fn0 func(c *enumCtx, i int)) {
	fid := regWorkerFn(func(arg any) { fn0(&enumCtx{r: r, st: newStats(), id: -2}, arg.(int)) })
	fn := func(c *enumCtx, i int) {
		defer func() {
			if p := recover(); p != nil {
				workerPanic(r, fid, i, fmt.Sprintf("case #%d", i), p)
			}
		}()
		if c.hb == nil {
			c.hb = newHB()
			c.hb.st = c.st
		}
		c.hb.begin(func() *Violation {
			cs := &Case{Kind: "worker-panic", Driver: "worker", Text: fmt.Sprintf("case #%d", i), Extra: map[string]any{"fn": fid, "arg": i}}
			return &Violation{Property: r.Prop, Site: "library-call", Detail: fmt.Sprintf("case #%d of this enumeration", i), Case: cs}
		})
		fn0(c, i)
		c.hb.end()
	}
	ch := make(chan int, 256)
	var wg sync.WaitGroup
	for w := 0; w < r.Workers; w++ {
		wg.Add(1)
		go func(id int) {
			defer wg.Done()
			c := &enumCtx{r: r, st: newStats(), id: id}
			for i := range ch {
				if r.expired() {
					c.st.Exhaustive = false
					continue
				}
				fn(c, i)
			}
			r.St.merge(c.st)
		}(w)
	}
	for i := 0; i < n; i++ {
		ch <- i
	}
	close(ch)
	wg.Wait()
	if r.expired() {
		r.St.Exhaustive = false
		r.St.CapsHit = append(r.St.CapsHit, "deadline")
	}
}

func all256() []byte {
	b := make([]byte, 256)
	for i := range b {
		b[i] = byte(i)
	}
	return b
}
