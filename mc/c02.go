package main

import (
	"fmt"
	"time"
)

// driver registry for replays (kind "schedule" and "extension")
type drvReplayFns struct {
	sched func(prop string, c *Case, or Oracles) []*Violation
	ext   func(prop string, c *Case, or Oracles) []*Violation
}

var drvReg = map[string]drvReplayFns{}

func regDrv[T any](d *Driver[T]) {
	d.init()
	drvReg[d.Name] = drvReplayFns{
		sched: func(prop string, c *Case, or Oracles) []*Violation { return replaySchedule(prop, d, c, or) },
		ext:   func(prop string, c *Case, or Oracles) []*Violation { return replayExtension(prop, d, c, or) },
	}
}

func oraclesFor(prop, driver string) Oracles {
	switch prop {
	case "C01", "C02", "C10", "C19", "C13":
		return Oracles{Schedule: true}
	case "C03":
		or := Oracles{Extension: true}
		if driver == msgDrv.Name {
			or.ExemptCase = msgNoCLenExempt
			or.ExemptObs = msgBodyLines
		}
		return or
	case "C04":
		return Oracles{Sanity: true}
	}
	return Oracles{Schedule: true}
}

func init() {
	regDrv(msgDrv)
	regDrv(flineDrv)
	regDrv(hdrLineDrv)
	regDrv(hdrsDrv)
	regDrv(nameAddrDrv)
	regDrv(contactsDrv)
	regDrv(paisDrv)
	regDrv(cseqDrv)
	regDrv(callidDrv)
	regDrv(uintDrv)
	regDrv(tokParamDrv)
	regDrv(tokLoopDrv)
	regDrv(uriParamsDrv)
	regDrv(uriHdrsDrv)
	regDrv(skipQuotedDrv)
	replayers["schedule"] = func(prop string, c *Case) []*Violation {
		return drvReg[c.Driver].sched(prop, c, oraclesFor(prop, c.Driver))
	}
	replayers["hang"] = func(prop string, c *Case) []*Violation {
		// one-shot and every two-chunk schedule of the recorded prefix, each under a timeout
		n := len(c.input())
		for cut := 0; cut < n; cut++ {
			cc := *c
			cc.Kind = "schedule"
			cc.Cuts = []int{n}
			if cut > 0 {
				cc.Cuts = []int{cut, n}
			}
			if !runWithTimeout(30*time.Second, func() { drvReg[c.Driver].sched("C04", &cc, Oracles{Sanity: true}) }) {
				return []*Violation{{Property: prop, Site: c.Driver, Rule: "call-returns", Class: "hang", Detail: fmt.Sprintf("schedule %v did not return within 30s", cc.Cuts), Case: c}}
			}
		}
		return nil
	}
	replayers["extension"] = func(prop string, c *Case) []*Violation {
		return drvReg[c.Driver].ext(prop, c, oraclesFor(prop, c.Driver))
	}
}

// exploreSpaces runs one explorer per (space, configuration); the configurations of a space share the worker pool.
func exploreSpaces[T any](r *Run, d *Driver[T], sps []space, or Oracles, mod func(c *Cfg)) {
	for _, sp := range sps {
		if r.expired() {
			r.St.Exhaustive = false
			r.St.CapsHit = append(r.St.CapsHit, "deadline-before:"+d.Name+"/"+sp.name)
			return
		}
		var es []*Explorer[T]
		var cs []string
		for _, cfg := range sp.cfgs {
			if mod != nil {
				mod(&cfg)
			}
			if or.Extension && cfg.EndMode {
				continue // the statement exempts the end-of-input modes from "no premature verdicts"
			}
			ff := sp.finalFlags
			if or.Extension && !or.Schedule {
				ff = nil
			}
			es = append(es, &Explorer[T]{Run: r, Prop: r.Prop, Drv: d, Gen: sp.gen, Cfg: cfg, Or: or, Realloc: !or.Extension, BeyondErr: sp.beyondErr, BeyondOk: sp.beyondOk,
				FinalFlags: ff, SplitDepth: sp.split, Probes: probeAll})
			cs = append(cs, cfg.String())
		}
		t0 := time.Now()
		s0, t0n := r.St.States, r.St.Transitions
		exploreMany(r, es)
		key := fmt.Sprintf("%s %s x%d cfgs %v", d.Name, sp.name, len(cs), cs)
		if len(key) > 600 {
			key = key[:600] + "...]"
		}
		r.noteSpace(key, r.St.States-s0, r.St.Transitions-t0n, time.Since(t0))
	}
}

// probeAll: C03 continuation probes (set only while C03 runs)
var probeAll [][]byte

func (r *Run) noteSpace(key string, states, trans int64, d time.Duration) {
	l, _ := r.Bounds["spaces"].([]string)
	r.Bounds["spaces"] = append(l, fmt.Sprintf("%s: states=%d transitions=%d %.1fs", key, states, trans, d.Seconds()))
}

func setUint(which uint) func(c *Cfg) { return func(c *Cfg) { c.Flags = which } }

func runAllDrivers(r *Run, or Oracles) {
	exploreSpaces(r, nameAddrDrv, nameAddrSpaces(r), or, nil)
	exploreSpaces(r, tokParamDrv, tokSpaces(r), or, nil)
	exploreSpaces(r, tokLoopDrv, tokSpaces(r)[1:], or, nil)
	exploreSpaces(r, cseqDrv, numSpaces(r), or, nil)
	exploreSpaces(r, callidDrv, numSpaces(r), or, nil)
	for w := uint(0); w < 3; w++ {
		exploreSpaces(r, uintDrv, numSpaces(r), or, setUint(w))
	}
	exploreSpaces(r, flineDrv, flineSpaces(r), or, nil)
	exploreSpaces(r, hdrLineDrv, hdrSpaces(r), or, nil)
	exploreSpaces(r, hdrsDrv, hdrSpaces(r), or, nil)
	exploreSpaces(r, contactsDrv, listSpaces(r), or, nil)
	exploreSpaces(r, paisDrv, listSpaces(r), or, nil)
	exploreSpaces(r, uriParamsDrv, uriListSpaces(r, false), or, nil)
	exploreSpaces(r, uriHdrsDrv, uriListSpaces(r, true), or, nil)
	exploreSpaces(r, skipQuotedDrv, skipQuotedSpaces(r), or, nil)
}

func checkC02(r *Run) {
	r.Assume = []string{"inputs bounded by the byte-trie depth / fragment count listed under bounds.spaces", "buffers <= 65535 bytes",
		"state key = every leaf field incl. unexported ones (reflect layout + unsafe), so equal keys have equal futures"}
	runAllDrivers(r, Oracles{Schedule: true})
}

func init() {
	register("C02", &checkDef{fn: checkC02,
		rule:        "E1 prefix-trie explorer: every node = one prefix; transitions = real calls resuming each distinct suspended state reachable at an ancestor prefix (all 2^(n-1) schedules by schedule merging); non-trivial = maximal/pruned input whose path had >=1 suspension and a definitive verdict",
		quickBudget: 150 * time.Second, thorBudget: 25 * time.Minute})
}
