package main

import (
	"fmt"
	"sort"
	"strings"

	"github.com/intuitivelabs/sipsp"
)

// "the header parser assigns exactly this classification" on header blocks: every ordered pair (and the triples of a
// reduced set) of table names in three spellings plus two non-table names, with a well-formed value for its type,
// through ParseHeaders with no value store, the library's value store, and caller-written stores that decline every
// value or exactly the values of the types present (so repeated single-instance headers and declined values are
// covered): the type of every stored header, the first-of-type lookup and the type-flag set follow the name alone.

type c16Block struct {
	Names []string
	HB    int // 0 nil, 1 &PHdrVals, 2 declines everything, 3 declines the types present
}

func c16ValueFor(t sipsp.HdrT) string {
	switch t {
	case sipsp.HdrFrom, sipsp.HdrTo:
		return "<sip:a@b>;tag=1"
	case sipsp.HdrCallID:
		return "abc@h"
	case sipsp.HdrCSeq:
		return "1 INVITE"
	case sipsp.HdrVia:
		return "SIP/2.0/UDP h;branch=z9hG4bK1"
	case sipsp.HdrMaxFwd:
		return "70"
	case sipsp.HdrCLen:
		return "0"
	case sipsp.HdrContact:
		return "<sip:c@d>"
	case sipsp.HdrExpires:
		return "60"
	case sipsp.HdrRecordRoute, sipsp.HdrRoute:
		return "<sip:r;lr>"
	case sipsp.HdrPAI:
		return "<sip:p@q>"
	}
	return "v"
}

func evalC16Block(cs *c16Block) (vs []*Violation) {
	var sb strings.Builder
	var want []sipsp.HdrT
	for _, n := range cs.Names {
		t := refHdrType([]byte(n))
		want = append(want, t)
		sb.WriteString(n + ": " + c16ValueFor(t) + "\r\n")
	}
	sb.WriteString("\r\n")
	buf := []byte(sb.String())
	add := func(rule, class, detail string) {
		c := mkCase("C16block", "ParseHeaders", nil, buf, nil)
		c.Extra = map[string]any{"case": *cs} // a copy: callers re-use their case variables
		vs = append(vs, &Violation{Property: "C16", Site: "ParseHeaders", Rule: rule, Class: class, Detail: detail, Case: c})
	}
	defer recoverTo3(add)
	var hl sipsp.HdrLst
	hl.Hdrs = make([]sipsp.Hdr, len(cs.Names))
	var pv sipsp.PHdrVals
	var hb sipsp.PHBodies
	switch cs.HB {
	case 1:
		hb = &pv
	case 2:
		hb = &maskedBodies{&pv, 0xff}
	case 3:
		var m uint8
		for _, t := range want {
			m |= nilBitOf(t)
		}
		hb = &maskedBodies{&pv, m}
	}
	_, e := sipsp.ParseHeaders(buf, 0, &hl, hb)
	if e != 0 || hl.N != len(want) {
		return // acceptance of well-formed blocks is C07's subject
	}
	cl := []string{"no-value-store", "library-value-store", "store-declines-all", "store-declines-present-types"}[cs.HB]
	var wf sipsp.HdrFlags
	first := map[sipsp.HdrT]bool{}
	for i, t := range want {
		wf.Set(t)
		if hl.Hdrs[i].Type != t {
			rep := ""
			if first[t] {
				rep = "/repeated"
			}
			add("parser-assigns-table-type", cl+rep, fmt.Sprintf("header %d %q: type %v want %v", i, cs.Names[i], hl.Hdrs[i].Type, t))
		}
		first[t] = true
	}
	if hl.PFlags != wf {
		add("parser-assigns-table-type", cl+"/type-flags", fmt.Sprintf("PFlags %#x want %#x", hl.PFlags, wf))
	}
	for t := sipsp.HdrNone + 1; t < sipsp.HdrOther; t++ {
		h := hl.GetHdr(t)
		if (h != nil && !h.Missing()) != first[t] || (first[t] && h.Type != t) {
			add("parser-assigns-table-type", cl+"/first-of-type", fmt.Sprintf("GetHdr(%v) = %+v, type present: %v", t, h, first[t]))
		}
	}
	return
}

func c16Blocks(r *Run) {
	var base []string
	for n := range hdrTable {
		base = append(base, n)
	}
	sort.Strings(base)
	var names []string
	for _, n := range base {
		names = append(names, n, strings.ToUpper(n))
		if len(n) > 1 {
			names = append(names, strings.ToUpper(n[:1])+n[1:])
		}
	}
	names = append(names, "X-Other", "k")
	red := append(append([]string(nil), base...), "X-Other")
	parallelFor(r, len(names), func(c *enumCtx, i int) {
		run := func(ns ...string) {
			for hb := 0; hb < 4; hb++ {
				for _, v := range evalC16Block(&c16Block{Names: ns, HB: hb}) {
					r.Col.add(v)
				}
				c.st.Evals++
				c.st.Transitions++
			}
			c.st.addExtra("header_blocks", 1)
		}
		run(names[i])
		for _, b := range names {
			run(names[i], b)
		}
		if i < len(red) {
			for _, b := range red {
				for _, d := range red {
					run(red[i], b, d)
				}
			}
		}
	})
}

func init() {
	replayers["C16block"] = func(prop string, c *Case) []*Violation {
		var cs c16Block
		remarshal(c.Extra["case"], &cs)
		return evalC16Block(&cs)
	}
}
