package main

// Input spaces (tries) and configurations shared by C02, C03, C04 and C11:
// the table of DESIGN §3/C02.

import (
	"strings"

	"github.com/intuitivelabs/sipsp"
)

// seqTrie: any sequence of <= K fragments from Menu, closed by one Term fragment
// (inputs without terminator are the inner nodes).
type seqTrie struct {
	Menu [][]byte
	K    int
	Term [][]byte
	// NoTermAtRoot: do not offer terminators before the first fragment
	NoTermAtRoot bool
}

func (s seqTrie) Root() any { return 0 }
func (s seqTrie) Expand(st any, depth int) []Frag {
	n := st.(int)
	if n < 0 {
		return nil
	}
	var fr []Frag
	if n < s.K {
		for _, m := range s.Menu {
			fr = append(fr, Frag{B: m, Next: n + 1})
		}
	}
	if !(s.NoTermAtRoot && n == 0) {
		for _, t := range s.Term {
			fr = append(fr, Frag{B: t, Next: -1})
		}
	}
	return fr
}

// chainTrie: one input given as a fixed sequence of fragments, a trie node after each fragment only.
type chainTrie struct{ Frags [][]byte }

func (c chainTrie) Root() any { return 0 }
func (c chainTrie) Expand(st any, depth int) []Frag {
	n := st.(int)
	if n >= len(c.Frags) {
		return nil
	}
	return []Frag{{B: c.Frags[n], Next: n + 1, Coarse: true}}
}

// longChain: head + fill pattern repeated + tail, about 63,000 bytes, with chunk boundaries at 1000, 2000, 4000, ...,
// 32000 bytes (doubling: whatever length a limit or a counter width is tied to, some boundary pair straddles it with
// less than that length in between), at the end of the fill and at the end of the tail.
func longChain(head, fill, tail string) chainTrie {
	k := (63000 - len(head)) / len(fill)
	text := head + strings.Repeat(fill, k) + tail
	var fr [][]byte
	prev := 0
	for _, cut := range []int{1000, 2000, 4000, 8000, 16000, 32000, len(head) + k*len(fill), len(text)} {
		fr = append(fr, []byte(text[prev:cut]))
		prev = cut
	}
	return chainTrie{fr}
}

// longMsgChains: messages with one very long element each.
func longMsgChains() []TrieGen {
	rl := "INVITE sip:a@b SIP/2.0\r\n"
	std := "Via: SIP/2.0/UDP h;branch=z9hG4bK1\r\nFrom: <sip:a@b>;tag=1\r\nTo: <sip:c@d>\r\nCall-ID: x@y\r\nCSeq: 1 INVITE\r\n"
	end := "\r\nl: 0\r\n\r\n"
	return []TrieGen{
		longChain(rl+std+"X-Blob: ", "a", end),
		longChain(rl+std+"X", "a", ": v"+end),
		longChain(rl+"From: \"", "a", "\" <sip:a@b>;tag=1\r\nTo: <sip:c@d>\r\nCSeq: 1 INVITE"+end),
		longChain(rl+"Call-ID: ", "a1-", "\r\nCSeq: 1 INVITE"+end),
		longChain("INVITE sip:", "a", "@h SIP/2.0\r\n"+std+"l: 0\r\n\r\n"),
		longChain("SIP/2.0 200 ", "a ", "\r\n"+std+"l: 0\r\n\r\n"),
		longChain(rl+std+"Contact: <sip:0@h>", ", <sip:a@b>;expires=7", end),
		longChain(rl+std+"l: 62000\r\n\r\n", "b", ""),
		longChain(rl+std+"Subject: s", "\r\n a", end),
		longChain(rl+std+"Contact: <sip:a@b>;x=", "a", ";expires=5"+end),
		longChain(rl+"To: <sip:", "a", "@h>;tag=2\r\nFrom: <sip:a@b>;tag=1\r\nCSeq: 1 INVITE"+end),
		longChain(rl+"Via: SIP/2.0/UDP h;branch=z9hG4bK", "a", "\r\nFrom: <sip:a@b>;tag=1\r\nCSeq: 1 INVITE"+end),
		longChain(rl+std, "X-H: v\r\n", "l: 0\r\n\r\n"),
	}
}

func bs(ss ...string) [][]byte {
	out := make([][]byte, len(ss))
	for i, s := range ss {
		out[i] = []byte(s)
	}
	return out
}

// space is one (driver-independent) description: generator + configurations.
type space struct {
	name string
	gen  TrieGen
	cfgs []Cfg
	// finalFlags: flag sets only meaningful on the last call (input-end / no-more-data)
	finalFlags []uint
	beyondErr  int
	beyondOk   int
	split      int
}

var hdrEnds = bs("\r\nX", "\r\n\r\n", "\nX", "\rX", "\r\n ")

// substSpace: every single-byte substitution (all 256 values) at every position of a few well-formed seed texts,
// one trie node per byte (so every chunk schedule of every variant is explored).
func substSpace(name string, seeds []string, cfgs []Cfg) space {
	var g []TrieGen
	for _, m := range seeds {
		g = append(g, substTrie{[]byte(m), all256(), 1})
	}
	return space{name: name + "/subst1x256", gen: unionTrie{g}, cfgs: cfgs, beyondErr: 1, beyondOk: 1, split: 1}
}

func nameAddrSpaces(r *Run) []space {
	L := r.pick(6, 7)
	sig := []byte("a \r\n<>\";=,\\*")
	var sp []space
	kinds := []sipsp.HdrT{sipsp.HdrFrom, sipsp.HdrContact, sipsp.HdrPAI, sipsp.HdrTo, sipsp.HdrRoute, sipsp.HdrRecordRoute}
	for i, h := range kinds {
		l := L
		if i >= 2 {
			l = L - 1
		}
		cfgs := []Cfg{{HdrType: int(h), HdrCap: -1, ValCap: -1}}
		if i < 2 {
			cfgs = append(cfgs, Cfg{HdrType: int(h), Offs: 5, Junk: "crlf", HdrCap: -1, ValCap: -1})
		}
		sp = append(sp, space{name: "name-addr/bytes/" + h.String(), gen: byteTrie{sig, l}, cfgs: cfgs, beyondErr: 2, beyondOk: 2, split: 2})
	}
	menu := bs("a", " ", "\"q\\\"x\"", "<sip:a@b>", "sip:a@b", ";", "tag", "=", "expires", "q", "lr", "7", "0.5", ",", "\r\n ", "\"v;,\"", "*", "1.2345")
	k := r.pick(4, 5)
	for _, h := range []sipsp.HdrT{sipsp.HdrFrom, sipsp.HdrContact, sipsp.HdrPAI} {
		sp = append(sp, space{name: "name-addr/frags/" + h.String(), gen: seqTrie{Menu: menu, K: k, Term: hdrEnds},
			cfgs: []Cfg{{HdrType: int(h), HdrCap: -1, ValCap: -1}}, beyondErr: 2, beyondOk: 1, split: 2})
	}
	sp = append(sp, substSpace("name-addr", []string{"\"A \\\" B\" <sip:a@b;x=1>;tag=t1;expires=5 ;q=0.5\r\nX", "Bob  <sip:b@c> ; lr\r\n ;x = \"q;\"\r\nX", "sip:c@d;tag=z;\r\nX", "* \r\nX"},
		[]Cfg{{HdrType: int(sipsp.HdrContact), HdrCap: -1, ValCap: -1}, {HdrType: int(sipsp.HdrFrom), HdrCap: -1, ValCap: -1, Offs: 3, Junk: "a"}}))
	sp = append(sp, space{name: "name-addr/long-elements-63k", gen: unionTrie{[]TrieGen{
		longChain("\"", "a", "\" <sip:a@b>;tag=1\r\nX"), longChain("<sip:", "a", "@h>;tag=1\r\nX"), longChain("<sip:a@b>;x=", "a", ";expires=5\r\nX"), longChain("<sip:a@b>", ";p=1", "\r\nX"),
		longChain("Bob ", "x ", "<sip:a@b>\r\nX"), longChain("sip:a@b;tag=", "a", "\r\nX"), longChain("<sip:a@b>;x=\"", "a", "\";q=0.5\r\nX"), longChain("<sip:a@b>", " \r\n ", ";tag=1\r\nX"),
	}}, cfgs: []Cfg{{HdrType: int(sipsp.HdrContact), HdrCap: -1, ValCap: -1}, {HdrType: int(sipsp.HdrFrom), HdrCap: -1, ValCap: -1, Offs: 3, Junk: "a"}}, beyondErr: 1, beyondOk: 1, split: 1})
	return sp
}

func listSpaces(r *Run) []space {
	// contact / PAI lists: values x ',' x LWS x terminator
	menu := bs("<sip:a@b>", "sip:c@d;expires=5", "\"x,y\" <sip:e@f>;q=0.1", ",", " ", "\r\n\t", ";expires=10", "*", ";lr", "n <sip:g@h>;tag=t")
	k := r.pick(5, 6)
	var cfgs []Cfg
	for _, c := range []int{-1, 0, 1, 2, 4} {
		cfgs = append(cfgs, Cfg{ValCap: c, HdrCap: -1})
	}
	cfgs = append(cfgs, Cfg{ValCap: 2, HdrCap: -1, Offs: 5, Junk: "a"})
	return []space{{name: "lists/frags", gen: seqTrie{Menu: menu, K: k, Term: hdrEnds}, cfgs: cfgs, beyondErr: 2, beyondOk: 1, split: 2},
		substSpace("lists", []string{"<sip:a@b>;expires=5, \"x,y\" <sip:e@f>;q=0.1 ,\r\n sip:c@d;lr, n <sip:g@h>\r\nX"}, []Cfg{cfgs[0], cfgs[2], cfgs[5]})}
}

func numSpaces(r *Run) []space {
	L := r.pick(8, 10)
	return []space{{name: "num/bytes", gen: byteTrie{[]byte("1a \t\r\n"), L}, cfgs: []Cfg{{HdrCap: -1, ValCap: -1}, {Offs: 5, Junk: "colon", HdrCap: -1, ValCap: -1}}, beyondErr: 2, beyondOk: 2, split: 2},
		{name: "num/frags", gen: seqTrie{Menu: bs("4294967295", "4294967296", "16777216", "16777217", "0", "00000000042", "000000009", "INVITE", " ", "\t", "\r\n ", "x"), K: r.pick(4, 5), Term: hdrEnds},
			cfgs: []Cfg{{HdrCap: -1, ValCap: -1}}, beyondErr: 2, beyondOk: 1, split: 2},
		substSpace("num", []string{"4294967295 INVITE\r\nX", " 0016777216\r\n \t\r\nX", "42 3PCC \r\nX", "abc-DEF@1.2.3.4\r\nX"}, []Cfg{{HdrCap: -1, ValCap: -1}, {Offs: 3, Junk: "colon", HdrCap: -1, ValCap: -1}})}
}

// flag sets for ParseTokenParam (mid-call flags; input-end is a final-call flag)
func tokFlagSets(r *Run) []uint {
	C, Q, S := uint(sipsp.POptTokCommaTermF), uint(sipsp.POptTokQmTermF), uint(sipsp.POptTokSpTermF)
	semi, amp := uint(sipsp.POptParamSemiSepF), uint(sipsp.POptParamAmpSepF)
	up, uh := uint(sipsp.POptTokURIParamF), uint(sipsp.POptTokURIHdrF)
	base := []uint{0, C, Q, S, C | S, Q | S, semi, amp, up, uh, up | S, uh | S, semi | C, amp | C, amp | Q, semi | C | S, up | C, uh | Q,
		amp | S, up | Q, uh | C, semi | Q | S, up | uh, C | Q}
	if r.quick() {
		return base
	}
	// thorough: all 128 combinations without input-end
	var all []uint
	for f := uint(0); f < 256; f++ {
		if f&uint(sipsp.POptInputEndF) == 0 {
			all = append(all, f)
		}
	}
	return all
}

func tokSpaces(r *Run) []space {
	sig := []byte("a \r\n;&=\",\\?@%4")
	L := r.pick(5, 6)
	var cfgs []Cfg
	for _, f := range tokFlagSets(r) {
		cfgs = append(cfgs, Cfg{Flags: f, HdrCap: -1, ValCap: -1})
	}
	cfgs = append(cfgs, Cfg{Flags: uint(sipsp.POptTokSpTermF), Offs: 5, Junk: "a", HdrCap: -1, ValCap: -1})
	// the input-end flag on EVERY call (not only the last one): with it only an open quoted string still suspends
	for _, f := range []uint{0, uint(sipsp.POptParamSemiSepF | sipsp.POptTokCommaTermF), uint(sipsp.POptTokURIParamF), uint(sipsp.POptTokURIHdrF), uint(sipsp.POptTokSpTermF)} {
		cfgs = append(cfgs, Cfg{Flags: f | uint(sipsp.POptInputEndF), HdrCap: -1, ValCap: -1, EndMode: true})
	}
	return []space{{name: "tokparam/bytes", gen: byteTrie{sig, L}, cfgs: cfgs, beyondErr: 2, beyondOk: 2, split: 2},
		{name: "tokparam/frags", gen: seqTrie{Menu: bs("branch", "=", "z9hG4bK", ";", " ", "\r\n ", "\"q\\\"\"", "lr", "&", ",", "%", "4"), K: r.pick(5, 6), Term: append(bs("?", " x", ",x"), hdrEnds...)},
			cfgs: []Cfg{{Flags: uint(sipsp.POptTokSpTermF), HdrCap: -1, ValCap: -1}, {Flags: uint(sipsp.POptTokCommaTermF | sipsp.POptParamSemiSepF), HdrCap: -1, ValCap: -1},
				{Flags: uint(sipsp.POptTokURIParamF), HdrCap: -1, ValCap: -1}, {Flags: uint(sipsp.POptTokURIHdrF), HdrCap: -1, ValCap: -1},
				// the same fragment sequences behind a start offset (returned offsets are compared with it)
				{Flags: uint(sipsp.POptTokCommaTermF | sipsp.POptParamSemiSepF), Offs: 5, Junk: "a", HdrCap: -1, ValCap: -1}, {Flags: uint(sipsp.POptTokURIParamF), Offs: 3, Junk: "crlf", HdrCap: -1, ValCap: -1}}, beyondErr: 2, beyondOk: 1, split: 2},
		substSpace("tokparam", []string{"branch = \"q\\\"x\" ; lr;x=1 ,next;y\r\nX", "transport=udp;a%41=b?h=1&c\r\nX", "p=v foo,bar\r\nX"},
			[]Cfg{{Flags: uint(sipsp.POptTokCommaTermF | sipsp.POptParamSemiSepF), HdrCap: -1, ValCap: -1}, {Flags: uint(sipsp.POptTokURIParamF), HdrCap: -1, ValCap: -1},
				{Flags: uint(sipsp.POptTokSpTermF | sipsp.POptTokCommaTermF), HdrCap: -1, ValCap: -1, Offs: 2, Junk: "a"}, {Flags: uint(sipsp.POptParamAmpSepF | sipsp.POptTokURIHdrF), HdrCap: -1, ValCap: -1}})}
}

func uriListSpaces(r *Run, hdrs bool) []space {
	sig := []byte("a;&=? \r\n\"%4")
	L := r.pick(6, 8)
	flagsets := []uint{0, uint(sipsp.POptTokQmTermF), uint(sipsp.POptTokSpTermF), uint(sipsp.POptTokCommaTermF)}
	if hdrs {
		flagsets = []uint{uint(sipsp.POptTokURIHdrF), uint(sipsp.POptTokURIHdrF | sipsp.POptTokSpTermF), uint(sipsp.POptTokCommaTermF)}
	} else {
		flagsets = append(flagsets, uint(sipsp.POptTokURIParamF), uint(sipsp.POptTokURIParamF|sipsp.POptTokSpTermF))
	}
	var cfgs []Cfg
	for _, f := range flagsets {
		for _, c := range []int{-1, 0, 1, 2, 8} {
			if f != flagsets[0] && c != 1 && c != 8 {
				continue
			}
			cfgs = append(cfgs, Cfg{Flags: f, ValCap: c, HdrCap: -1})
		}
	}
	cfgs = append(cfgs, Cfg{Flags: flagsets[0], ValCap: 2, HdrCap: -1, Offs: 5, Junk: "a"})
	cfgs = append(cfgs, Cfg{Flags: flagsets[0] | uint(sipsp.POptInputEndF), ValCap: 2, HdrCap: -1, EndMode: true}, Cfg{Flags: flagsets[len(flagsets)-1] | uint(sipsp.POptInputEndF), ValCap: -1, HdrCap: -1, EndMode: true})
	menu := bs("transport", "=", "udp", ";", "&", "lr", "TTL", "1", " ", "\r\n ", "\"q\"", "maddr", "x", "%", "4")
	return []space{{name: "urilist/bytes", gen: byteTrie{sig, L}, cfgs: cfgs, beyondErr: 2, beyondOk: 2, split: 2, finalFlags: []uint{uint(sipsp.POptInputEndF)}},
		{name: "urilist/frags", gen: seqTrie{Menu: menu, K: r.pick(4, 5), Term: append(bs("?", " x", ","), hdrEnds...)}, cfgs: append(append([]Cfg(nil), cfgs[:3]...), Cfg{Flags: flagsets[0], ValCap: 2, HdrCap: -1, Offs: 5, Junk: "a"}), beyondErr: 2, beyondOk: 1, split: 2,
			finalFlags: []uint{uint(sipsp.POptInputEndF)}},
		substSpace("urilist", []string{"transport=udp;lr;TTL=1;x=\"q;\" ;maddr = m?h", "a=1&b = \"q\"&c&d=%41 x"}, append(append([]Cfg(nil), cfgs[:2]...), Cfg{Flags: flagsets[len(flagsets)-1], ValCap: 1, HdrCap: -1, Offs: 4, Junk: "a"}))}
}

func skipQuotedSpaces(r *Run) []space {
	return []space{{name: "skipquoted/bytes", gen: byteTrie{[]byte("a\"\\ \r\n\x7f\x01"), r.pick(7, 9)}, cfgs: []Cfg{{HdrCap: -1, ValCap: -1}, {Offs: 5, Junk: "a", HdrCap: -1, ValCap: -1}}, beyondErr: 2, beyondOk: 2, split: 2}}
}

func flineSpaces(r *Run) []space {
	d := r.pick(7, 9)
	var subs []TrieGen
	for _, p := range []string{"AAAAAAA", "AAA AAA ", "AAA AAA AAA", "INVITE sip:a SIP/2.0"} {
		subs = append(subs, prefixedTrie{[]byte(p), byteTrie{[]byte("A \t\r\n\x07"), d}})
	}
	for _, p := range []string{"SIP/2.0 ", "SIP/2.0 2", "SIP/2.0 200 ", "sip/2.0 ", "SIP/2.0 200 OK"} {
		subs = append(subs, prefixedTrie{[]byte(p), byteTrie{[]byte("2A \r\n\x07"), d}})
	}
	return []space{{name: "fline/prefixed-bytes", gen: unionTrie{subs}, cfgs: []Cfg{{HdrCap: -1, ValCap: -1}, {Offs: 5, Junk: "crlf", HdrCap: -1, ValCap: -1}, {Offs: 33, Junk: "crlf", HdrCap: -1, ValCap: -1}}, beyondErr: 2, beyondOk: 2, split: 2},
		substSpace("fline", []string{"INVITE sip:alice@example.com SIP/2.0\r\nX", "SIP/2.0 486 Busy Here\r\nX", "sip/2.0 000 \nX", "PRACK sip:b SIP/2.0\rX"}, []Cfg{{HdrCap: -1, ValCap: -1}, {Offs: 17, Junk: "crlf", HdrCap: -1, ValCap: -1}})}
}

// header lines used by header-level fragment tries (also C01's menu)
var hdrLineMenuFull = []string{
	"From: sip:a@b;tag=1\r\n",
	"f: \"A \\\" \\\\B\" <sip:a@b>;tag=xy\r\n",
	"From:\r\n <sip:a@b>\r\n\t;tag = 9\r\n",
	"To: <sip:c@d>\r\n",
	"t: c <sip:c@d> ; tag=z\r\n",
	"Call-ID: abc@1.2.3.4\r\n",
	"i:x\r\n",
	"CSeq: 1 INVITE\r\n",
	"CSeq:\t42\r\n  REGISTER \r\n",
	"Content-Length: 0\r\n",
	"l: 2\r\n",
	"Content-Length: 99999999\r\n",
	"Contact: <sip:a@b>\r\n",
	"m: <sip:a@b>;expires=30, sip:c@d;q=0.7\r\n",
	"Contact: \"x\" <sip:a@b>\r\n ,\r\n <sip:e@f>;expires=5\r\n",
	"Contact: *\r\n",
	"Contact: * \r\n",
	"m: *\r\n\t\r\n",
	"Contact: <sip:z@y>;q=1;expires=7200\r\n",
	"m: <sip:e@f>;Q=0.1234;expires=99999999999, <sip:g@h>;q=7\r\n", // parameter errors (ParamErr / ErrOffs are set)
	"P-Asserted-Identity: <sip:p@q>\r\n",
	"P-Asserted-Identity: <sip:p@q>, <tel:+1>, n <sip:r@s>\r\n",
	"Expires: 60\r\n",
	"Expires: 4294967295\r\n",
	"Expires:\r\n 0000000061\r\n",
	"Content-Length: 16777216\r\n",
	"l: 000000007\r\n",
	"Content-Length: 0000000002\r\n",
	"To: <sip:c@d>;\r\n",
	"To: <sip:c@d>;lr; \t\r\n",
	"Contact: <sip:a@h>;x= , sip:b@h;y;\t \r\n",
	"From: sip:a@b;\r\n",
	"Contact: <sip:a@h>; , sip:b@h;\r\n",
	"P-Asserted-Identity: <sip:p@q>;;\r\n",
	"Via: SIP/2.0/UDP 1.2.3.4;branch=z9hG4bK77\r\n",
	"v: SIP/2.0/TCP h;branch=1\r\n",
	"Max-Forwards: 70\r\n",
	"User-Agent: x y\r\n",
	"Route: <sip:r;lr>\r\n",
	"Record-Route: <sip:r2;lr>\r\n",
	"X-Gen: a\r\n b\r\n",
	"X-E:\r\n",
	"X-W  : v  \r\n",
	"From : \"W\" <sip:w@s>;tag=ws\r\n",
	"Content-Length\t: 2\r\n",
	"m \t: <sip:x@y>;expires=3\r\n",
	"CSeq : 5 ACK\r\n",
	"CSeq: 7 3PCC\r\n",
	"Subject: lone\rY: cr\r\n",
	"Z: lf\n",
	// malformed
	"NoColon\r\n",
	"From: <sip:a@b>>\r\n",
	"To: \"unterminated\r\n",
	"Content-Length: 1x\r\n",
	"CSeq: x\r\n",
	"Contact: <sip:a@b>;=\r\n",
	"Expires: 5000000000\r\n",
}

var hdrLineMenuQuick = []string{
	"From: sip:a@b;tag=1\r\n",
	"f: \"A \\\" \\\\B\" <sip:a@b>;tag=xy\r\n",
	"To: <sip:c@d>\r\n",
	"i:x\r\n",
	"CSeq:\t42\r\n  REGISTER \r\n",
	"l: 2\r\n",
	"m: <sip:a@b>;expires=30, sip:c@d;q=0.7\r\n",
	"Contact: \"x\" <sip:a@b>\r\n ,\r\n <sip:e@f>;expires=5\r\n",
	"Contact: *\r\n",
	"m: * \r\n",
	"P-Asserted-Identity: <sip:p@q>, <tel:+1>, n <sip:r@s>\r\n",
	"Expires: 60\r\n",
	"Expires: 4294967295\r\n",
	"Content-Length: 0000000002\r\n",
	"To: <sip:c@d>;\r\n",
	"t: <sip:c@d>;lr; \t\r\n",
	"v: SIP/2.0/TCP h;branch=1\r\n",
	"X-Gen: a\r\n b\r\n",
	"X-W  : v  \r\n",
	"From : \"W\" <sip:w@s>;tag=ws\r\n",
	"Content-Length\t: 2\r\n",
	"Subject: lone\rY: cr\r\n",
	"NoColon\r\n",
	"To: \"unterminated\r\n",
}

var blankMenu = []string{"\r\n", "\n", "\rX"}

func strs(ss []string) [][]byte { return bs(ss...) }

func hdrSpaces(r *Run) []space {
	L := r.pick(8, 10)
	cfgNil := Cfg{HdrCap: -1, ValCap: -1}
	cfgV := Cfg{HdrCap: -1, ValCap: -1, WithVals: true}
	sp := []space{{name: "hdr/bytes", gen: byteTrie{[]byte("a: \t\r\n"), L}, cfgs: []Cfg{cfgNil, cfgV, {HdrCap: 1, ValCap: 1, WithVals: true, Offs: 5, Junk: "crlf"}, {HdrCap: 0, ValCap: 0, WithVals: true}}, beyondErr: 2, beyondOk: 2, split: 2}}
	menu := hdrLineMenuFull
	if r.quick() {
		menu = hdrLineMenuQuick
	}
	var cfgs []Cfg
	for _, hc := range []int{-1, 0, 1, 2} {
		for _, vc := range []int{-1, 0, 1, 3} {
			cfgs = append(cfgs, Cfg{HdrCap: hc, ValCap: vc, WithVals: true})
		}
	}
	cfgs = append(cfgs, cfgNil, Cfg{HdrCap: 2, ValCap: 1, WithVals: true, Offs: 5, Junk: "a"})
	sp = append(sp, space{name: "hdr/frags", gen: seqTrie{Menu: strs(menu), K: 2, Term: strs(blankMenu), NoTermAtRoot: false}, cfgs: cfgs, beyondErr: 2, beyondOk: 2, split: 2})
	sp = append(sp, substSpace("hdr", []string{"From : \"W\" <sip:w@s>;tag=ws\r\nCSeq: 7 ACK\r\nl: 2\r\n\r\n", "m: <sip:a@b>;expires=30, sip:c@d;q=0.7\r\nSubject: \r\nX-Gen: a\r\n b\r\n\r\n", "Call-ID:\n x\nExpires:60\nv: SIP/2.0/UDP h;branch=1\n\n"},
		[]Cfg{cfgV, {HdrCap: 1, ValCap: 1, WithVals: true, Offs: 3, Junk: "crlf"}, cfgNil}))
	// header blocks of about 63,000 bytes with one very long element each (chunk boundaries at doubling positions)
	end := "\r\nl: 0\r\n\r\n"
	sp = append(sp, space{name: "hdr/long-elements-63k", gen: unionTrie{[]TrieGen{
		longChain("X-Blob: ", "a", end), longChain("X", "a", ": v"+end), longChain("From: \"", "a", "\" <sip:a@b>;tag=1"+end), longChain("Call-ID: ", "a1-", end),
		longChain("Contact: <sip:0@h>", ", <sip:a@b>;expires=7", end), longChain("Subject: s", "\r\n a", end), longChain("m: <sip:a@b>;x=", "a", ";expires=5"+end),
		longChain("v: SIP/2.0/UDP h;branch=z9hG4bK", "a", end), longChain("", "X-H: v\r\n", "l: 0\r\n\r\n"), longChain("CSeq: 1 ", "A", end), longChain("P-Asserted-Identity: <sip:0@h>", ",<tel:1>", end),
	}}, cfgs: []Cfg{cfgV, cfgNil, {HdrCap: 1, ValCap: 1, WithVals: true, Offs: 3, Junk: "crlf"}}, beyondErr: 1, beyondOk: 1, split: 1})
	return sp
}
