package main

import (
	"bytes"
	"fmt"
	"strings"
	"time"

	"github.com/intuitivelabs/sipsp"
)

type flCase struct {
	Kind   string // request | reply | nearmiss
	A, B   string // tokens: request: method, uri ; reply: version, code
	C      string // request: version ; reply: reason
	Term   string
	ViaMsg bool
	Offs   int  // start offset of the line in the buffer (bytes of an earlier message before it)
	Cut    int  // > 0: two chunks, the first ends Cut bytes into the line
	all    bool // generator hint: run every cut for this case also in the quick tier
}

func (f flCase) line() []byte {
	return []byte(f.A + " " + f.B + " " + f.C + f.Term)
}

const flTail = "Call-ID: x\r\nCSeq: 7 OPTIONS\r\n\r\n"

// evalC08 checks one generated first line (expectations known by construction).
func evalC08(f flCase, raw []byte) (vs []*Violation) {
	var line []byte
	if f.Kind == "nearmiss" || f.Kind == "not-a-reply" {
		line = raw
	} else {
		line = f.line()
	}
	pre := []byte("OPTIONS sip:prev@msg SIP/2.0\r\nCall-ID: p\r\nl: 0\r\n\r\n........................................................................")[:f.Offs]
	buf := append(append(append([]byte(nil), pre...), line...), flTail...)
	site := "ParseFLine"
	if f.ViaMsg {
		site = "ParseSIPMsg"
	}
	add := func(rule, class, detail string) {
		c := mkCase("C08", site, nil, line, nil)
		c.Extra = map[string]any{"kind": f.Kind, "a": bstr(f.A), "b": bstr(f.B), "c": bstr(f.C), "term": f.Term, "viamsg": f.ViaMsg, "offs": f.Offs, "cut": f.Cut}
		vs = append(vs, &Violation{Property: "C08", Site: site, Rule: rule, Class: class, Detail: detail, Case: c})
	}
	defer recoverTo3(add)
	var fl *sipsp.PFLine
	var n int
	var e sipsp.ErrorHdr
	var msg sipsp.PSIPMsg
	o := f.Offs
	_, pmsg := guarded(func() string {
		c08Parse(&f, buf, &msg, &fl, &n, &e)
		return ""
	})
	if pmsg != "" {
		add("no-panic", f.Kind, "panic: "+pmsg)
		return
	}
	n -= o
	get := func(p sipsp.PField) string { return string(p.Get(buf)) }
	c08Oracle(f, line, buf, fl, &msg, n, e, add, get)
	return
}

func c08Parse(f *flCase, buf []byte, msg *sipsp.PSIPMsg, flp **sipsp.PFLine, np *int, ep *sipsp.ErrorHdr) {
	o := f.Offs
	var fl *sipsp.PFLine
	var n int
	var e sipsp.ErrorHdr
	defer func() { *flp, *np, *ep = fl, n, e }()
	if f.ViaMsg {
		msg.Init(nil, nil, nil)
		fl = &msg.FL
		if f.Cut > 0 {
			if n, e = sipsp.ParseSIPMsg(buf[:o+f.Cut], o, msg, sipsp.SIPMsgSkipBodyF); e == sipsp.ErrHdrMoreBytes {
				n, e = sipsp.ParseSIPMsg(buf, n, msg, sipsp.SIPMsgSkipBodyF)
			}
		} else {
			n, e = sipsp.ParseSIPMsg(buf, o, msg, sipsp.SIPMsgSkipBodyF)
		}
	} else {
		fl = new(sipsp.PFLine)
		if f.Cut > 0 {
			if n, e = sipsp.ParseFLine(buf[:o+f.Cut], o, fl); e == sipsp.ErrHdrMoreBytes {
				n, e = sipsp.ParseFLine(buf, n, fl)
			}
		} else {
			n, e = sipsp.ParseFLine(buf, o, fl)
		}
	}
}

func c08Oracle(f flCase, line, buf []byte, fl *sipsp.PFLine, msg *sipsp.PSIPMsg, n int, e sipsp.ErrorHdr, add func(rule, class, detail string), get func(p sipsp.PField) string) {
	switch f.Kind {
	case "not-a-reply":
		if e == 0 && (!fl.Request() || fl.Status != 0 || !fl.StatusCode.Empty()) {
			add("only-sip-version-lines-are-replies", f.A, fmt.Sprintf("reported as a reply: version=%q code=%q status=%d", get(fl.Version), get(fl.StatusCode), fl.Status))
		}
		return
	case "nearmiss":
		if e == 0 {
			add("grammar-violations-rejected", f.A, fmt.Sprintf("accepted: method=%q uri=%q ver=%q code=%q reason=%q", get(fl.Method), get(fl.URI), get(fl.Version), get(fl.StatusCode), get(fl.Reason)))
		}
		return
	case "request":
		if e != 0 {
			add("well-formed-accepted", "request", fmt.Sprintf("verdict %v at %d", e, n))
			return
		}
		if !f.ViaMsg && n != len(line) {
			add("offset-after-line", "request", fmt.Sprintf("offset %d want %d", n, len(line)))
		}
		if !fl.Request() || (f.ViaMsg && !msg.Request()) {
			add("request-vs-reply", "request-as-reply", "Request()==false")
		}
		if get(fl.Method) != f.A || get(fl.URI) != f.B || get(fl.Version) != f.C {
			add("tokens-exact", "request", fmt.Sprintf("method=%q uri=%q version=%q", get(fl.Method), get(fl.URI), get(fl.Version)))
		}
		if want := refMethod([]byte(f.A)); fl.MethodNo != want || (f.ViaMsg && msg.Method() != want) {
			add("method-number-matches-name", "request", fmt.Sprintf("%q -> %d want %d", f.A, fl.MethodNo, want))
		}
		if fl.Status != 0 || !fl.StatusCode.Empty() || !fl.Reason.Empty() {
			add("reply-fields-empty-in-request", "request", fmt.Sprintf("status=%d code=%v reason=%v", fl.Status, fl.StatusCode, fl.Reason))
		}
	case "reply":
		cls := "reply"
		if f.B == "000" {
			cls = "status-000"
		}
		if e != 0 {
			add("well-formed-accepted", cls, fmt.Sprintf("verdict %v at %d", e, n))
			return
		}
		if !f.ViaMsg && n != len(line) {
			add("offset-after-line", cls, fmt.Sprintf("offset %d want %d", n, len(line)))
		}
		if fl.Request() || (f.ViaMsg && msg.Request()) {
			add("request-vs-reply", cls, "Request()==true for a status line")
		}
		code := int(f.B[0]-'0')*100 + int(f.B[1]-'0')*10 + int(f.B[2]-'0')
		if int(fl.Status) != code || get(fl.StatusCode) != f.B {
			add("status-equals-digits", cls, fmt.Sprintf("status=%d code=%q want %s", fl.Status, get(fl.StatusCode), f.B))
		}
		if get(fl.Reason) != f.C {
			add("reason-is-rest-of-line", cls, fmt.Sprintf("reason=%q want %q", get(fl.Reason), f.C))
		}
		if get(fl.Version) != f.A {
			add("tokens-exact", cls, fmt.Sprintf("version=%q want %q", get(fl.Version), f.A))
		}
		if !fl.Method.Empty() || !fl.URI.Empty() {
			add("request-fields-empty-in-reply", cls, fmt.Sprintf("method=%v uri=%v", fl.Method, fl.URI))
		}
		if f.ViaMsg && f.B != "000" && msg.Method() != sipsp.MOptions {
			add("reply-method-from-cseq", cls, fmt.Sprintf("Method()=%d", msg.Method()))
		}
	}
	return
}

func checkC08(r *Run) {
	r.Assume = []string{"every generated line is followed by >= 14 further bytes (the parser's look-ahead) so that a definitive verdict is due", "method tokens equal to SIP/2.0 (any case) are not generated (ambiguous)"}
	var methods []string
	for m := range mthTable {
		methods = append(methods, m)
	}
	// one-edit neighbours of the known names: every token-legal first / last byte substitution, a dropped or doubled letter
	for m := range mthTable {
		for x := byte(33); x < 127; x++ {
			if x == m[0] {
				continue
			}
			methods = append(methods, string(x)+m[1:])
			if x != m[len(m)-1] && x%4 == 1 {
				methods = append(methods, m[:len(m)-1]+string(x))
			}
		}
		methods = append(methods, m[1:], m+m[len(m)-1:], m[:1]+m)
	}
	methods = append(methods, "OTHER", "invite", "Invite", "INVITe", "FOO", "X", "INVITE2", "IN", "SIP", "SIP/2.00", "a-b.c!%*_+`'~", "\x80\xff")
	uris := []string{"sip:a@b", "x", "*", "sip:a;b?c=d", "sips:[::1]:5061;transport=tls", "SIP/2.0",
		// tokens wrapped in, or made of, characters that delimit things elsewhere in SIP: reported exactly as written
		"<sip:a@b>", "<>", "<sip:a@b", "sip:a@b>", "\"sip:a@b\"", "(sip:a)", "[::1]", "a,b", "a=b;c", "%41:%", "'x'", "{x}", ":", "@"}
	vers := []string{"SIP/2.0", "SIP/3.0", "x", "sip/2.0"}
	terms := []string{"\r\n", "\n", "\r"}
	var cases []flCase
	for mi, m := range methods {
		_, known := mthTable[m]
		for ui, u := range uris {
			for vi, v := range vers {
				for ti, t := range terms {
					if !known && len(methods)-mi > 14 && (ui != mi%len(uris) || vi != mi%len(vers) || ti != mi%len(terms)) {
						continue // neighbour names: one URI/version/terminator combination each (rotating)
					}
					cases = append(cases, flCase{Kind: "request", A: m, B: u, C: v, Term: t}, flCase{Kind: "request", A: m, B: u, C: v, Term: t, ViaMsg: true})
				}
			}
		}
	}
	// every byte value that can be part of a token (0x21-0x7e, 0x80-0xff) inside the method, the URI and the version
	for x := 0x21; x < 0x100; x++ {
		if x == 0x7f {
			continue
		}
		xs := string([]byte{byte(x)})
		for _, t := range terms {
			for _, via := range []bool{false, true} {
				cases = append(cases, flCase{Kind: "request", A: "IN" + xs + "TE", B: "sip:a@b", C: "SIP/2.0", Term: t, ViaMsg: via},
					flCase{Kind: "request", A: "OPTIONS", B: "sip:\xc3" + xs + "lice@b" + xs, C: "SIP/2.0", Term: t, ViaMsg: via},
					flCase{Kind: "request", A: "BYE", B: "sip:a@b", C: "SIP/" + xs + "2.0" + xs, Term: t, ViaMsg: via})
			}
		}
	}
	// versions (and URIs) that begin with, end in or contain the usual version string: tokens all the same - always
	// delivered at every cut
	for _, v := range []string{"SIP/2.0.1", "SIP/2.01", "SIP/2.0-draft", "SIP/2.0SIP/2.0", "XSIP/2.0", "XSIP/2.0Y", "SIP/2.", "SIP/2", "SIP/2.0\x80", "SIP/2.0/UDP", "sip/2.0.0"} {
		for _, m := range []string{"INVITE", "FOO"} {
			for _, u := range []string{"sip:a@b", "SIP/2.0", v} {
				for _, t := range terms {
					for _, via := range []bool{false, true} {
						cases = append(cases, flCase{Kind: "request", A: m, B: u, C: v, Term: t, ViaMsg: via, all: true})
					}
				}
			}
		}
	}
	// long unknown methods that END in a known method name (and start with one): the numeric method must come from
	// the whole token whatever the chunking - always delivered at every cut
	for m := range mthTable {
		for _, pad := range []int{1, 13, 14, 16, 40} {
			for _, t := range terms[:2] {
				for _, via := range []bool{false, true} {
					cases = append(cases, flCase{Kind: "request", A: strings.Repeat("X", pad) + m, B: "sip:a@b.c", C: "SIP/2.0", Term: t, ViaMsg: via, all: true},
						flCase{Kind: "request", A: m + strings.Repeat("Y", pad), B: "sip:a@b.c", C: "SIP/2.0", Term: t, ViaMsg: via, all: true})
				}
			}
		}
	}
	reasons := []string{"", "OK", "Not Found Here", "a\tb ", "\x80\xff", "200 OK", " "}
	rvers := []string{"SIP/2.0", "sip/2.0", "SiP/2.0"}
	for code := 0; code < 1000; code++ {
		cs := fmt.Sprintf("%03d", code)
		for _, rs := range reasons {
			for _, v := range rvers {
				for _, t := range terms {
					cases = append(cases, flCase{Kind: "reply", A: v, B: cs, C: rs, Term: t})
					if code%7 == 0 || code < 10 {
						cases = append(cases, flCase{Kind: "reply", A: v, B: cs, C: rs, Term: t, ViaMsg: true})
					}
				}
			}
		}
	}
	// every byte value except CR / LF inside the reason text
	for x := 0; x < 0x100; x++ {
		if x == '\r' || x == '\n' {
			continue
		}
		xs := string([]byte{byte(x)})
		for _, t := range terms {
			cases = append(cases, flCase{Kind: "reply", A: "SIP/2.0", B: "404", C: "a" + xs + "b", Term: t}, flCase{Kind: "reply", A: "SIP/2.0", B: "180", C: xs, Term: t, ViaMsg: x%2 == 0})
		}
	}
	near := map[string][]string{
		"double-space":   {"INVITE  sip:a SIP/2.0\r\n", "INVITE sip:a  SIP/2.0\r\n", "SIP/2.0  200 OK\r\n"},
		"tab-for-space":  {"INVITE\tsip:a SIP/2.0\r\n", "INVITE sip:a\tSIP/2.0\r\n", "SIP/2.0\t200 OK\r\n", "SIP/2.0 200\tOK\r\n"},
		"leading-space":  {" INVITE sip:a SIP/2.0\r\n", " SIP/2.0 200 OK\r\n"},
		"trailing-space": {"INVITE sip:a SIP/2.0 \r\n", "INVITE sip:a SIP/2.0\t\r\n"},
		"missing-token":  {"INVITE sip:a\r\nXXXXXXXXXXXXXX", "INVITE\r\nXXXXXXXXXXXXXXXXX", "SIP/2.0 200\r\nXXXXXXXXXXXX", "SIP/2.0\r\nXXXXXXXXXXXXXXX"},
		"extra-token":    {"INVITE sip:a SIP/2.0 x\r\n", "A b c d\r\nXXXXXXXXXXXXX"},
		"bad-status":     {"SIP/2.0 20 OK\r\n", "SIP/2.0 2000 OK\r\n", "SIP/2.0 2x0 OK\r\n", "SIP/2.0 x00 OK\r\n", "SIP/2.0 20x OK\r\n", "SIP/2.0 -10 OK\r\n", "SIP/2.0 200OK\r\n"},
		"empty-line":     {"\r\nINVITE sip:a SIP/2.0\r\n", "\nINVITE sip:a SIP/2.0\r\n"},
	}
	parallelFor(r, len(cases), func(c *enumCtx, i int) {
		vs := evalC08(cases[i], nil)
		c.st.Evals++
		c.st.Transitions++
		c.st.States++
		c.st.Nontrivial++
		c.st.outcome(cases[i].Kind)
		for _, v := range vs {
			r.Col.add(v)
		}
		// the same line behind an earlier message and delivered in two chunks: every cut inside the line (+2)
		if i%r.pick(4, 1) != 0 && !cases[i].all {
			return
		}
		ll := len(cases[i].line())
		for _, off := range []int{0, 57, 100} {
			for cut := 0; cut <= ll+2; cut++ {
				if off == 0 && cut == 0 {
					continue
				}
				if off == 100 && cut%5 != 0 {
					continue
				}
				f := cases[i]
				f.Offs, f.Cut = off, cut
				c.st.Evals++
				c.st.Transitions += 2
				for _, v := range evalC08(f, nil) {
					r.Col.add(v)
				}
			}
		}
	})
	// generated near misses: every line of 1-4 tokens with every placement of single / double SP and HT between,
	// before and after them; only 'tok SP tok SP tok' (and status lines 'SIP/2.0 SP 200 SP ...') are well formed
	var gen []string
	toks := []string{"A", "sip:b", "SIP/2.0", "200"}
	seps := []string{" ", "  ", "\t"}
	var build func(cur string, k, left int, single bool)
	build = func(cur string, k, left int, single bool) {
		if left == 0 {
			for _, trail := range []string{"", " "} {
				valid3 := single && k == 3 && trail == ""
				if valid3 || strings.HasPrefix(cur, "SIP/2.0 200 ") || (cur == "SIP/2.0 200" && trail == " ") {
					continue
				}
				gen = append(gen, cur+trail+"\r\n")
			}
			return
		}
		for _, t := range toks {
			if cur == "" || strings.TrimLeft(cur, " \t") == "" {
				build(cur+t, k, left-1, single)
				continue
			}
			for _, sp := range seps {
				build(cur+sp+t, k, left-1, single && sp == " ")
			}
		}
	}
	for k := 1; k <= 4; k++ {
		for _, lead := range []string{"", " ", "\t", "  "} {
			build(lead, k, k, lead == "")
		}
	}
	parallelFor(r, len(gen), func(c *enumCtx, i int) {
		for _, via := range []bool{false, true} {
			vs := evalC08(flCase{Kind: "nearmiss", A: "token-sequence", ViaMsg: via}, []byte(gen[i]))
			c.st.Evals++
			c.st.Transitions++
			c.st.Outcomes["nearmiss"]++
			for _, v := range vs {
				r.Col.add(v)
			}
		}
	})
	for cls, ls := range near {
		for _, l := range ls {
			for _, via := range []bool{false, true} {
				vs := evalC08(flCase{Kind: "nearmiss", A: cls, ViaMsg: via}, []byte(l))
				r.St.Evals++
				r.St.Transitions++
				r.St.Outcomes["nearmiss"]++
				for _, v := range vs {
					r.Col.add(v)
				}
			}
		}
	}
	// every single-byte substitution in the "SIP/2.0 " prefix of a status line (all 256 values): unless the result is
	// just a letter-case variant, the line is no longer a status line and must not be reported as a reply
	for _, base := range []string{"SIP/2.0 200 OK\r\n", "sip/2.0 486 Busy Here\r\n"} {
		for p := 0; p < 8; p++ {
			for x := 0; x < 256; x++ {
				b := []byte(base)
				if b[p] == byte(x) {
					continue
				}
				b[p] = byte(x)
				if strings.EqualFold(string(b[:8]), "SIP/2.0 ") {
					continue
				}
				for _, via := range []bool{false, true} {
					vs := evalC08(flCase{Kind: "not-a-reply", A: "prefix-substitution", ViaMsg: via}, b)
					r.St.Evals++
					r.St.Transitions++
					r.St.Outcomes["prefix-substitution"]++
					for _, v := range vs {
						r.Col.add(v)
					}
				}
			}
		}
	}
	// short lines never succeed while the buffer is shorter than the look-ahead
	for _, l := range []string{"A b c\r\n", "A b c\r\nX", "SIP/2.0 200 \r"} {
		var fl sipsp.PFLine
		if _, e := sipsp.ParseFLine([]byte(l), 0, &fl); e == 0 && !bytes.HasSuffix([]byte(l), []byte("\n")) {
			r.Col.add(&Violation{Property: "C08", Site: "ParseFLine", Rule: "grammar-violations-rejected", Class: "short-line", Detail: "accepted", Case: mkCase("C08", "ParseFLine", nil, []byte(l), nil)})
		}
	}
	r.St.sample(fmt.Sprintf("%q", cases[0].line()))
	r.St.sample(fmt.Sprintf("%q", cases[len(cases)-1].line()))
}

func init() {
	replayers["C08"] = func(prop string, c *Case) []*Violation {
		ex := c.Extra
		s := func(k string) string { return exBstr(ex, k) }
		via, _ := ex["viamsg"].(bool)
		f := flCase{Kind: s("kind"), A: s("a"), B: s("b"), C: s("c"), Term: s("term"), ViaMsg: via, Offs: exInt(ex, "offs"), Cut: exInt(ex, "cut")}
		return evalC08(f, c.input())
	}
	register("C08", &checkDef{fn: checkC08,
		rule:        "E4: product of method x URI x version x terminator request lines, all 1000 status codes x reasons x version casings x terminators, and near-miss lines, through ParseFLine and ParseSIPMsg; expectations by construction; every case is non-trivial (distinct line)",
		quickBudget: 60 * time.Second, thorBudget: 5 * time.Minute})
}
