package main

import (
	"encoding/json"
	"fmt"
	"strings"
	"time"

	"github.com/intuitivelabs/sipsp"
)

// ---- generator ---------------------------------------------------------------

type naParam struct {
	Name, Val string
	HasEq     bool
}

func (p naParam) String() string {
	if p.HasEq {
		return p.Name + "=" + p.Val
	}
	return p.Name
}

// naVal: one name-addr value; Gaps holds the LWS text of every gap slot:
// slot 0: between display name and '<'; for parameter k (0-based): 1+4k before ';', 2+4k after ';',
// 3+4k before '=', 4+4k after '='; last slot (1+4n): trailing (before ',' or the line end).
type naVal struct {
	Disp    string
	URI     string
	Bracket bool
	Inner   string // URI parameters inside the brackets (";x=y")
	Params  []naParam
	Gaps    []string
	Star    bool
}

// JSON forms that keep non-UTF-8 bytes (see bstr)
type naParamJ struct {
	Name, Val bstr
	HasEq     bool
}

func (p naParam) MarshalJSON() ([]byte, error) {
	return json.Marshal(naParamJ{bstr(p.Name), bstr(p.Val), p.HasEq})
}

func (p *naParam) UnmarshalJSON(d []byte) error {
	var j naParamJ
	if err := json.Unmarshal(d, &j); err != nil {
		return err
	}
	*p = naParam{string(j.Name), string(j.Val), j.HasEq}
	return nil
}

type naValJ struct {
	Disp    bstr
	URI     bstr
	Bracket bool
	Inner   bstr
	Params  []naParam
	Gaps    []string
	Star    bool
}

func (v naVal) MarshalJSON() ([]byte, error) {
	return json.Marshal(naValJ{bstr(v.Disp), bstr(v.URI), v.Bracket, bstr(v.Inner), v.Params, v.Gaps, v.Star})
}

func (v *naVal) UnmarshalJSON(d []byte) error {
	var j naValJ
	if err := json.Unmarshal(d, &j); err != nil {
		return err
	}
	*v = naVal{string(j.Disp), string(j.URI), j.Bracket, string(j.Inner), j.Params, j.Gaps, j.Star}
	return nil
}

type naExp struct {
	Name, URI, Params, Tag, V [2]int // spans relative to value start; {0,0} = empty
	HasTag                    bool
	HasExp                    bool
	Exp                       uint32
	Q                         uint16
	LR, Star                  bool
	End                       int // end of value text incl. trailing gap
}

func (v *naVal) nslots() int { return 2 + 4*len(v.Params) }

func (v *naVal) gap(i int) string {
	if i < len(v.Gaps) {
		return v.Gaps[i]
	}
	return ""
}

// render appends the value text to sb and returns expectations with absolute positions.
func (v *naVal) render(sb *strings.Builder) naExp {
	var e naExp
	s := sb.Len()
	if v.Star {
		sb.WriteString("*")
		e.URI = [2]int{s, s + 1}
		e.V = [2]int{s, s + 1}
		e.Star = true
		sb.WriteString(v.gap(1))
		e.End = sb.Len()
		return e
	}
	if v.Disp != "" {
		sb.WriteString(v.Disp)
		e.Name = [2]int{s, sb.Len()}
		sb.WriteString(v.gap(0))
	}
	if v.Bracket {
		sb.WriteString("<")
		us := sb.Len()
		sb.WriteString(v.URI + v.Inner)
		e.URI = [2]int{us, sb.Len()}
		sb.WriteString(">")
	} else {
		us := sb.Len()
		sb.WriteString(v.URI)
		e.URI = [2]int{us, sb.Len()}
	}
	vend := sb.Len()
	for k, p := range v.Params {
		sb.WriteString(v.gap(1 + 4*k))
		sb.WriteString(";")
		sb.WriteString(v.gap(2 + 4*k))
		ps := sb.Len()
		if e.Params == [2]int{} {
			e.Params[0] = ps
		}
		sb.WriteString(p.Name)
		pe := sb.Len()
		if p.HasEq {
			sb.WriteString(v.gap(3 + 4*k))
			sb.WriteString("=")
			sb.WriteString(v.gap(4 + 4*k))
			vs := sb.Len()
			sb.WriteString(p.Val)
			pe = sb.Len()
			switch strings.ToLower(p.Name) {
			case "tag":
				e.Tag = [2]int{vs, pe}
				e.HasTag = true
			case "expires":
				e.HasExp = true
				fmt.Sscan(p.Val, &e.Exp)
			case "q":
				var f float64
				fmt.Sscan(p.Val, &f)
				e.Q = uint16(f*1000 + 0.5)
			}
		}
		if strings.ToLower(p.Name) == "lr" {
			e.LR = true
		}
		e.Params[1] = pe
		vend = pe
	}
	e.V = [2]int{s, vend}
	sb.WriteString(v.gap(1 + 4*len(v.Params)))
	e.End = sb.Len()
	return e
}

var naDisplays = []string{"", "Bob", "Bob Smith", "\"q\"", "\"a \\\" , ; < b\"", "*67", "*", "\"C:\\\\\"", "\"\\\\\""} // the last two: quoted strings that END in an escaped backslash
var naURIs = []string{"sip:a@b", "sip:h:5060", "tel:1"}
var naParamMenu = []naParam{{"tag", "T", true}, {"TAG", "T2", true}, {"expires", "7", true}, {"q", "0.5", true}, {"lr", "", false}, {"x", "", false}, {"x", "y", true}, {"x", "\"q;,\"", true}, {"dir", "\"C:\\\\\"", true}}
var naLWS = []string{" ", "\r\n ", "\t"}

// further LWS forms used by the thorough tier (lone-LF / lone-CR folds, CRLF HT)
var naLWSMore = []string{"\n ", "\r\n\t"}

func naParamLists(maxn int) [][]naParam {
	var out [][]naParam
	var rec func(cur []naParam)
	rec = func(cur []naParam) {
		out = append(out, append([]naParam(nil), cur...))
		if len(cur) == maxn {
			return
		}
		for _, p := range naParamMenu {
			dup := false
			for _, c := range cur {
				if strings.EqualFold(c.Name, p.Name) {
					dup = true
				}
			}
			if !dup {
				rec(append(cur, p))
			}
		}
	}
	rec(nil)
	return out
}

func naShapes() []naVal {
	var out []naVal
	for _, d := range naDisplays {
		for _, u := range naURIs {
			if d == "" {
				out = append(out, naVal{URI: u})
			}
			out = append(out, naVal{Disp: d, URI: u, Bracket: true})
			out = append(out, naVal{Disp: d, URI: u, Bracket: true, Inner: ";x=y"})
		}
	}
	return out
}

// gapAssignments enumerates all gap vectors with at most maxNonEmpty non-empty slots.
func gapAssignments(v *naVal, maxNonEmpty int, fn func(g []string)) {
	n := v.nslots()
	g := make([]string, n)
	valid := func(i int) bool {
		if i == 0 {
			return v.Disp != ""
		}
		if i == n-1 {
			return true
		}
		k := (i - 1) / 4
		if k >= len(v.Params) {
			return false
		}
		switch (i - 1) % 4 {
		case 2, 3: // around '='
			if !v.Params[k].HasEq {
				return false
			}
		}
		return true
	}
	var rec func(start, left int)
	rec = func(start, left int) {
		fn(g)
		if left == 0 {
			return
		}
		for i := start; i < n; i++ {
			if !valid(i) {
				continue
			}
			kinds := naLWS
			if len(v.Params) >= 3 && len(kinds) > 3 {
				kinds = kinds[:3] // 3-parameter values: the three basic LWS forms only (budget)
			}
			for _, w := range kinds {
				g[i] = w
				rec(i+1, left-1)
			}
			g[i] = ""
		}
	}
	rec(0, maxNonEmpty)
}

// ---- oracle ------------------------------------------------------------------

type c09Case struct {
	Hdr     int     // header kind
	Via     bool    // through ParseHeaders (else direct ParseNameAddrPVal)
	Vals    []naVal // values of the (first) header
	Vals2   []naVal // values of an optional second header of the same kind
	ValCap  int
	Comma   []string // LWS after each ',' (len(Vals)-1)
	HdrName string
	Cut     int  // > 0: the text is delivered in two chunks, the first of this length
	AllCuts bool `json:",omitempty"` // generator hint: always run every cut for this case
}

func trimTrail(b []byte, s, e int) (int, int) {
	for e > s && (b[e-1] == ' ' || b[e-1] == '\t' || b[e-1] == '\r' || b[e-1] == '\n') {
		e--
	}
	return s, e
}

func spanOf(f sipsp.PField) [2]int {
	if f.Len == 0 {
		return [2]int{}
	}
	return [2]int{int(f.Offs), int(f.Offs + f.Len)}
}

func cmpNA(buf []byte, got *sipsp.PFromBody, exp *naExp, hdr sipsp.HdrT, what string, add func(rule, class, detail string)) {
	txt := func(s [2]int) string { return string(buf[s[0]:s[1]]) }
	chk := func(rule string, g [2]int, w [2]int, trim bool) {
		if trim && g != [2]int{} {
			g[0], g[1] = trimTrail(buf, g[0], g[1])
			if g[0] == g[1] {
				g = [2]int{}
			}
		}
		if g != w {
			gs := ""
			if g[1] <= len(buf) && g[0] <= g[1] {
				gs = txt(g)
			}
			add(rule, what, fmt.Sprintf("%s: got %v %q want %v %q", what, g, gs, w, txt(w)))
		}
	}
	chk("display-name-as-written", spanOf(got.Name), exp.Name, true)
	chk("uri-without-brackets", spanOf(got.URI), exp.URI, false)
	chk("parameter-span", spanOf(got.Params), exp.Params, true)
	chk("tag", spanOf(got.Tag), exp.Tag, false)
	chk("whole-value-trimmed", spanOf(got.V), exp.V, false)
	if got.HasExpires != exp.HasExp || got.Expires != exp.Exp {
		add("expires", what, fmt.Sprintf("HasExpires=%v Expires=%d want %v %d", got.HasExpires, got.Expires, exp.HasExp, exp.Exp))
	}
	if got.Q != exp.Q {
		add("q", what, fmt.Sprintf("Q=%d want %d", got.Q, exp.Q))
	}
	if got.LR != exp.LR {
		cl := what
		if exp.LR {
			cl = "valueless-lr"
		}
		add("lr-flag", cl, fmt.Sprintf("LR=%v want %v", got.LR, exp.LR))
	}
	if got.Star != exp.Star {
		add("star", what, fmt.Sprintf("Star=%v want %v", got.Star, exp.Star))
	}
	if got.Type != hdr {
		add("kind-of-header", hdr.String(), fmt.Sprintf("Type=%v want %v", got.Type, hdr))
	}
	if got.ParamErr != 0 {
		add("no-param-error", what, fmt.Sprintf("ParamErr=%v at %d", got.ParamErr, got.ErrOffs))
	}
}

func hdrNameFor(h sipsp.HdrT, compact bool) string {
	switch h {
	case sipsp.HdrFrom:
		if compact {
			return "f"
		}
		return "From"
	case sipsp.HdrTo:
		if compact {
			return "t"
		}
		return "To"
	case sipsp.HdrContact:
		if compact {
			return "m"
		}
		return "Contact"
	case sipsp.HdrPAI:
		return "P-Asserted-Identity"
	}
	return "X"
}

func gapClass(cs *c09Case) string {
	// which gap slots are used (normalised shape of the LWS placement)
	var parts []string
	for vi, v := range append(append([]naVal(nil), cs.Vals...), cs.Vals2...) {
		n := v.nslots()
		for i, g := range v.Gaps {
			if g == "" {
				continue
			}
			var nm string
			switch {
			case i == 0:
				nm = "before<"
			case i == n-1:
				if len(v.Params) > 0 {
					nm = "trailing-after-param"
				} else {
					nm = "trailing-after-uri"
				}
				if vi < len(cs.Vals)-1 {
					nm = "before-comma:" + nm
				}
			default:
				nm = []string{"before;", "after;", "before=", "after="}[(i-1)%4]
			}
			parts = append(parts, nm)
		}
	}
	if len(parts) == 0 {
		return "no-lws"
	}
	return strings.Join(parts, "+")
}

func evalC09(cs *c09Case) (vs []*Violation) {
	h := sipsp.HdrT(cs.Hdr)
	var sb strings.Builder
	if cs.Via {
		sb.WriteString(cs.HdrName + ": ")
	}
	var exps []naExp
	for i := range cs.Vals {
		exps = append(exps, cs.Vals[i].render(&sb))
		if i < len(cs.Vals)-1 {
			sb.WriteString(",")
			if i < len(cs.Comma) {
				sb.WriteString(cs.Comma[i])
			}
		}
	}
	sb.WriteString("\r\n")
	h1 := len(exps)
	if len(cs.Vals2) > 0 {
		sb.WriteString(cs.HdrName + ": ")
		for i := range cs.Vals2 {
			exps = append(exps, cs.Vals2[i].render(&sb))
			if i < len(cs.Vals2)-1 {
				sb.WriteString(",")
			}
		}
		sb.WriteString("\r\n")
	}
	if cs.Via {
		sb.WriteString("\r\n")
	} else {
		sb.WriteString("X")
	}
	buf := []byte(sb.String())
	site := "ParseNameAddrPVal"
	if cs.Via {
		site = "ParseHeaders"
	}
	gc := gapClass(cs)
	add := func(rule, class, detail string) {
		c := mkCase("C09", site, nil, buf, nil)
		c.Extra = map[string]any{"case": *cs} // a copy: callers re-use their case variables
		vs = append(vs, &Violation{Property: "C09", Site: site, Rule: rule, Class: class, Detail: detail, Case: c})
	}
	defer recoverTo3(add)
	if !cs.Via {
		// direct: one value per call, looping on more-values
		offs := 0
		avail := len(buf)
		if cs.Cut > 0 && cs.Cut < len(buf) {
			avail = cs.Cut
		}
		for i := range exps {
			var pf sipsp.PFromBody
			n, e := sipsp.ParseNameAddrPVal(h, buf[:avail], offs, &pf)
			if e == sipsp.ErrHdrMoreBytes && avail < len(buf) {
				// second chunk arrives: resume with the returned offset and the same structure
				avail = len(buf)
				n, e = sipsp.ParseNameAddrPVal(h, buf, n, &pf)
			}
			last := i == len(exps)-1
			if last && e != 0 || !last && e != sipsp.ErrHdrMoreValues {
				add("well-formed-accepted", gc, fmt.Sprintf("value %d: verdict %v at %d", i, e, n))
				return
			}
			cmpNA(buf, &pf, &exps[i], h, "value", add)
			offs = n
		}
		return
	}
	var hl sipsp.HdrLst
	var pv sipsp.PHdrVals
	pv.Init(mkVals(cs.ValCap))
	var n int
	var e sipsp.ErrorHdr
	if cs.Cut > 0 && cs.Cut < len(buf) {
		if n, e = sipsp.ParseHeaders(buf[:cs.Cut], 0, &hl, &pv); e == sipsp.ErrHdrMoreBytes {
			n, e = sipsp.ParseHeaders(buf, n, &hl, &pv)
		}
	} else {
		n, e = sipsp.ParseHeaders(buf, 0, &hl, &pv)
	}
	if e != 0 {
		add("well-formed-accepted", gc, fmt.Sprintf("verdict %v at %d", e, n))
		return
	}
	switch h {
	case sipsp.HdrFrom:
		cmpNA(buf, &pv.From, &exps[0], h, "From", add)
	case sipsp.HdrTo:
		cmpNA(buf, &pv.To, &exps[0], h, "To", add)
	case sipsp.HdrContact, sipsp.HdrPAI:
		var N, HNo, stored int
		var more bool
		get := func(i int) *sipsp.PFromBody { return nil }
		if h == sipsp.HdrContact {
			c := &pv.Contacts
			N, HNo, stored, more = c.N, c.HNo, c.VNo(), c.More()
			get = func(i int) *sipsp.PFromBody { return &c.Vals[i] }
			var mx uint32
			mn := ^uint32(0)
			all := true
			for _, x := range exps {
				if x.Exp > mx {
					mx = x.Exp
				}
				if !x.HasExp && !x.Star {
					all = false
				}
				if x.Exp < mn {
					mn = x.Exp
				}
			}
			if c.MaxExpires != mx {
				add("max-expires-summarises-all-values", "max", fmt.Sprintf("MaxExpires=%d want %d", c.MaxExpires, mx))
			}
			if all && c.MinExpires != mn {
				add("min-expires-summarises-all-values", "min", fmt.Sprintf("MinExpires=%d want %d", c.MinExpires, mn))
			}
			if m, ok := pv.MaxExpires(); !ok || m != mx {
				add("max-expires-summarises-all-values", "accessor", fmt.Sprintf("MaxExpires()=%d,%v want %d", m, ok, mx))
			}
			if f := c.GetContact(0); f == nil {
				add("first-contact-retrievable", "nil", "GetContact(0)==nil")
			} else {
				cmpNA(buf, f, &exps[0], h, "first", add)
			}
			if l := c.GetContact(len(exps) - 1); l == nil {
				add("last-contact-retrievable", "nil", "GetContact(N-1)==nil")
			} else {
				cmpNA(buf, l, &exps[len(exps)-1], h, "last", add)
			}
		} else {
			p := &pv.PAIs
			N, HNo, stored, more = p.N, p.HNo, p.VNo(), p.More()
			get = func(i int) *sipsp.PFromBody { return &p.Vals[i] }
		}
		wantH := 1
		if len(cs.Vals2) > 0 {
			wantH = 2
		}
		if N != len(exps) {
			add("value-count", "N", fmt.Sprintf("N=%d want %d", N, len(exps)))
			return
		}
		if HNo != wantH {
			add("header-count", "HNo", fmt.Sprintf("HNo=%d want %d", HNo, wantH))
		}
		capv := cs.ValCap
		if h == sipsp.HdrPAI {
			capv = 2
		}
		if capv < 0 {
			capv = 0
		}
		ws := len(exps)
		if ws > capv {
			ws = capv
		}
		if stored != ws || more != (len(exps) > capv) {
			add("stored-prefix-and-more", "count", fmt.Sprintf("stored=%d more=%v want %d %v", stored, more, ws, len(exps) > capv))
		} else {
			for i := 0; i < stored; i++ {
				cmpNA(buf, get(i), &exps[i], h, "stored", add)
			}
		}
	}
	_ = h1
	return
}

func checkC09(r *Run) {
	r.Assume = []string{"Name and Params are compared after trimming trailing LWS (documented leniency of the library)", "LWS is never generated after '=' of an empty value",
		"MinExpires asserted only when every value carries expires (the statement does not define the contribution of a value without it)"}
	if !r.quick() {
		naLWS = append(naLWS, naLWSMore...)
		defer func() { naLWS = naLWS[:3] }()
	}
	shapes := naShapes()
	plists := naParamLists(r.pick(2, 3))
	maxGaps := r.pick(2, 2)
	kinds := []sipsp.HdrT{sipsp.HdrFrom, sipsp.HdrTo, sipsp.HdrContact, sipsp.HdrPAI, sipsp.HdrRoute, sipsp.HdrRecordRoute}
	cutEvery := r.pick(5, 3)
	run := func(c *enumCtx, cs *c09Case) {
		vs := evalC09(cs)
		c.st.Evals++
		c.st.Transitions++
		c.st.States++
		c.st.Nontrivial++
		c.st.Outcomes[fmt.Sprintf("kind=%d via=%v values=%d", cs.Hdr, cs.Via, len(cs.Vals)+len(cs.Vals2))]++
		for _, v := range vs {
			r.Col.add(v)
		}
		// the same text in two chunks (every cut) for every cutEvery-th case: the decomposition must not depend on delivery
		// deterministic selection: hash of the rendered case
		var hsh uint32 = 2166136261
		mix := func(s string) {
			for i := 0; i < len(s); i++ {
				hsh = (hsh ^ uint32(s[i])) * 16777619
			}
		}
		tl := 0
		for _, v := range append(append([]naVal(nil), cs.Vals...), cs.Vals2...) {
			var sb strings.Builder
			(&v).render(&sb)
			tl += sb.Len() + 3
			mix(sb.String())
		}
		mix(fmt.Sprint(cs.Hdr, cs.Via, cs.ValCap, cs.HdrName))
		if int(hsh>>8)%cutEvery != 0 && !cs.AllCuts {
			return
		}
		tl += len(cs.HdrName)*2 + 8
		for cut := 1; cut < tl; cut++ {
			cc := *cs
			cc.Cut = cut
			c.st.Evals++
			c.st.Transitions += 2
			for _, v := range evalC09(&cc) {
				r.Col.add(v)
			}
		}
	}
	// single values: every shape x parameter list x gap assignment x header kind (direct and via headers)
	parallelFor(r, len(shapes)*len(plists), func(c *enumCtx, idx int) {
		sh := shapes[idx/len(plists)]
		pl := plists[idx%len(plists)]
		v := sh
		v.Params = pl
		gapAssignments(&v, maxGaps, func(g []string) {
			vv := v
			vv.Gaps = append([]string(nil), g...)
			for ki, k := range kinds {
				if r.quick() && (idx+ki)%3 != 0 && len(pl) == 2 {
					continue
				}
				run(c, &c09Case{Hdr: int(k), Vals: []naVal{vv}})
				if k == sipsp.HdrFrom || k == sipsp.HdrTo || k == sipsp.HdrContact || k == sipsp.HdrPAI {
					run(c, &c09Case{Hdr: int(k), Via: true, Vals: []naVal{vv}, ValCap: 2, HdrName: hdrNameFor(k, idx%2 == 0)})
				}
			}
		})
	})
	// '*' (always also in two chunks at every cut)
	for _, g := range []string{"", " ", "\r\n ", "\t", "  ", "\r\n\t", " \r\n "} {
		c0 := &enumCtx{r: r, st: newStats()}
		st := naVal{Star: true, Gaps: []string{"", g}}
		run(c0, &c09Case{Hdr: int(sipsp.HdrContact), Vals: []naVal{st}, AllCuts: true})
		for _, hn := range []string{"Contact", "m"} {
			for _, vc := range []int{-1, 0, 1} {
				run(c0, &c09Case{Hdr: int(sipsp.HdrContact), Via: true, Vals: []naVal{st}, ValCap: vc, HdrName: hn, AllCuts: true})
			}
		}
		r.St.merge(c0.st)
	}
	// every byte value in the places where arbitrary text is legal: inside a quoted display name (plain and as a
	// quoted pair), inside a quoted parameter value, inside the URI (bytes that are not delimiters of the value)
	parallelFor(r, 256, func(c *enumCtx, x int) {
		xs := string([]byte{byte(x)})
		var vals []naVal
		if x != '\r' && x != '\n' {
			if x != '"' && x != '\\' && (x >= 0x20 || x == '\t') && x != 0x7f {
				vals = append(vals, naVal{Disp: "\"a" + xs + "b\"", URI: "sip:a@b", Bracket: true, Params: []naParam{{"tag", "T", true}}},
					naVal{URI: "sip:a@b", Bracket: true, Params: []naParam{{"x", "\"v" + xs + "w\"", true}, {"tag", "T", true}}})
			}
			if x < 0x80 {
				vals = append(vals, naVal{Disp: "\"a\\" + xs + "b\"", URI: "sip:a@b", Bracket: true, Params: []naParam{{"expires", "9", true}}})
			}
		}
		if x > 0x20 && x != 0x7f && strings.IndexByte("<>\",;", byte(x)) < 0 {
			vals = append(vals, naVal{Disp: "Bob", URI: "sip:u" + xs + "r@h", Bracket: true, Params: []naParam{{"tag", "T", true}}})
			if x != '=' && x != '*' {
				vals = append(vals, naVal{URI: "sip:u" + xs + "r@h", Params: []naParam{{"tag", "T", true}}})
			}
		}
		for _, v := range vals {
			v.Gaps = make([]string, v.nslots())
			for _, k := range []sipsp.HdrT{sipsp.HdrFrom, sipsp.HdrContact} {
				run(c, &c09Case{Hdr: int(k), Vals: []naVal{v}, AllCuts: x%16 == 3})
				run(c, &c09Case{Hdr: int(k), Via: true, Vals: []naVal{v}, ValCap: 2, HdrName: hdrNameFor(k, x%2 == 0)})
			}
		}
	})
	// parameter names that only resemble the recognised ones (longer, shorter, with a suffix): generic parameters,
	// alone, before and after the real tag / expires / q / lr
	look := []naParam{{"expiresx", "77", true}, {"Expires-Refresh", "86400", true}, {"expires_after", "\"1\"", true}, {"expire", "5", true}, {"xexpires", "6", true},
		{"tagg", "zz", true}, {"tags", "", false}, {"ta", "t", true}, {"qq", "0.9", true}, {"q1", "1", true}, {"lrr", "", false}, {"lr1", "x", true}, {"l", "", false},
		{"pub-gruu-id", "77", true}, {"max-contacts", "4000", true}, {"x-session-id", "abc", true}, {"reg-id", "0.7", true}, {"sip.instance", "\"<urn:uuid:1>\"", true}}
	parallelFor(r, len(look), func(c *enumCtx, li int) {
		lp := look[li]
		for _, pl := range [][]naParam{{lp}, {lp, {"expires", "30", true}, {"tag", "T", true}}, {{"q", "0.5", true}, {"expires", "30", true}, lp}, {{"tag", "T", true}, lp, {"lr", "", false}}, {lp, look[(li+5)%len(look)]},
			// value-less parameters that carry the recognised names, after a parameter with a value: nothing is reported for them
			{lp, {"expires", "", false}}, {lp, {"tag", "", false}}, {lp, {"q", "", false}}, {lp, {"x", "", false}, {"Expires", "", false}, {"TAG", "", false}}, {{"expires", "", false}, lp, {"q", "", false}, {"tag", "T", true}}} {
			for si, sh := range shapes {
				if si%3 != li%3 {
					continue
				}
				v := sh
				v.Params = pl
				v.Gaps = make([]string, v.nslots())
				for _, k := range []sipsp.HdrT{sipsp.HdrContact, sipsp.HdrFrom, sipsp.HdrPAI} {
					run(c, &c09Case{Hdr: int(k), Vals: []naVal{v}})
					run(c, &c09Case{Hdr: int(k), Via: true, Vals: []naVal{v, {URI: "sip:second@h", Bracket: true, Params: []naParam{{"expires", "60", true}}}}[:1+map[bool]int{true: li % 2, false: 0}[k != sipsp.HdrFrom]], ValCap: []int{-1, 0, 2}[si%3], HdrName: hdrNameFor(k, li%2 == 0)})
				}
			}
		}
	})
	// every legal way of writing a q value (RFC 3261 qvalue: "0" ["." 0*3DIGIT] / "1" ["." 0*3("0")]), alone and next
	// to other parameters
	qforms := []string{"0", "1", "0.", "1.", "0.0", "1.0", "0.00", "1.00", "0.000", "1.000", "0.5", "0.05", "0.005", "0.50", "0.500", "0.123", "0.999", "0.001", "0.01", "0.1"}
	parallelFor(r, len(qforms), func(c *enumCtx, qi int) {
		q := naParam{"q", qforms[qi], true}
		for _, qn := range []string{"q", "Q"} {
			q.Name = qn
			for _, pl := range [][]naParam{{q}, {q, {"expires", "7", true}}, {{"tag", "T", true}, q}, {{"x", "", false}, q, {"lr", "", false}}} {
				for _, sh := range shapes {
					v := sh
					v.Params = pl
					for _, g := range []string{"", " "} {
						vv := v
						vv.Gaps = make([]string, vv.nslots())
						vv.Gaps[vv.nslots()-1] = g
						for _, k := range []sipsp.HdrT{sipsp.HdrContact, sipsp.HdrFrom} {
							run(c, &c09Case{Hdr: int(k), Vals: []naVal{vv}})
							run(c, &c09Case{Hdr: int(k), Via: true, Vals: []naVal{vv}, ValCap: 2, HdrName: hdrNameFor(k, qi%2 == 0)})
						}
					}
				}
			}
		}
	})
	// lists of 1-3 values, 1-2 headers, capacities, LWS around ','
	lvals := []naVal{
		{URI: "sip:a@b", Bracket: true},
		{URI: "sip:c@d", Params: []naParam{{"expires", "5", true}}},
		{Disp: "\"x,y\"", URI: "sip:e@f", Bracket: true, Params: []naParam{{"q", "0.1", true}, {"expires", "4294967295", true}}},
		{Disp: "Bob", URI: "tel:1", Bracket: true, Inner: ";x=y", Params: []naParam{{"tag", "t", true}}},
		{URI: "sip:g@h", Bracket: true, Params: []naParam{{"expires", "30", true}, {"x", "\"q;,\"", true}}},
	}
	commas := []string{"", " ", "\r\n\t"}
	parallelFor(r, len(lvals)*len(lvals), func(c *enumCtx, idx int) {
		a, b := lvals[idx/len(lvals)], lvals[idx%len(lvals)]
		for _, third := range append([]naVal{{}}, lvals...) {
			for _, trail := range []string{"", " ", "\r\n "} {
				for _, cm := range commas {
					vals := []naVal{a, b}
					if third.URI != "" {
						vals = append(vals, third)
					}
					// trailing LWS before the ',' of the first value
					v0 := vals[0]
					v0.Gaps = make([]string, v0.nslots())
					v0.Gaps[v0.nslots()-1] = trail
					vals[0] = v0
					cms := []string{cm, cm}
					for _, k := range []sipsp.HdrT{sipsp.HdrContact, sipsp.HdrPAI, sipsp.HdrRoute} {
						run(c, &c09Case{Hdr: int(k), Vals: vals, Comma: cms})
						if k == sipsp.HdrRoute {
							continue
						}
						for _, vc := range []int{-1, 0, 1, 2, 3, 4} {
							run(c, &c09Case{Hdr: int(k), Via: true, Vals: vals, Comma: cms, ValCap: vc, HdrName: hdrNameFor(k, false)})
							run(c, &c09Case{Hdr: int(k), Via: true, Vals: vals[:1], Vals2: vals[1:], Comma: cms, ValCap: vc, HdrName: hdrNameFor(k, true)})
						}
					}
				}
			}
		}
	})
	// longer lists: n = 4..40 values in one header and split over two, capacities around n and around the built-in size
	parallelFor(r, 37, func(c *enumCtx, k int) {
		n := k + 4
		var vals []naVal
		for i := 0; i < n; i++ {
			v := lvals[(i*3+n)%len(lvals)]
			v.URI = fmt.Sprintf("sip:u%d@h", i)
			vals = append(vals, v)
		}
		cms := make([]string, n)
		for i := range cms {
			cms[i] = commas[(i+n)%len(commas)]
		}
		for _, kd := range []sipsp.HdrT{sipsp.HdrContact, sipsp.HdrPAI} {
			run(c, &c09Case{Hdr: int(kd), Vals: vals, Comma: cms})
			for _, vc := range []int{-1, 0, 1, 9, 10, 11, n - 1, n, n + 1} {
				run(c, &c09Case{Hdr: int(kd), Via: true, Vals: vals, Comma: cms, ValCap: vc, HdrName: hdrNameFor(kd, n%2 == 0)})
				run(c, &c09Case{Hdr: int(kd), Via: true, Vals: vals[:n/2], Vals2: vals[n/2:], Comma: cms, ValCap: vc, HdrName: hdrNameFor(kd, n%2 == 1)})
			}
		}
	})
	var sb strings.Builder
	x := lvals[2]
	x.render(&sb)
	r.St.sample(sb.String())
	r.Bounds["shapes"] = len(shapes)
	r.Bounds["param_lists"] = len(plists)
	r.Bounds["max_nonempty_gaps"] = maxGaps
}

func init() {
	replayers["C09"] = func(prop string, c *Case) []*Violation {
		var cs c09Case
		remarshal(c.Extra["case"], &cs)
		return evalC09(&cs)
	}
	register("C09", &checkDef{fn: checkC09,
		rule:        "E4: generated name-addr values (display x URI x bracket form x ordered parameter lists x LWS at every legal gap, <= 2 non-empty gaps) and lists of 1-3 values in 1-2 headers, through ParseNameAddrPVal (6 header kinds) and ParseHeaders (From/To/Contact/PAI, capacities); expectations by construction; every case is a distinct non-trivial value",
		quickBudget: 240 * time.Second, thorBudget: 40 * time.Minute})
}
