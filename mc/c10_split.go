package main

import (
	"fmt"
	"math/big"
	"strings"

	"github.com/intuitivelabs/sipsp"
)

// Interrupted digit strings: two digit groups with something between them (blanks, every kind of line folding, a
// sign, a dot, a letter, a quote ...). Whether such a value is accepted is not asserted; if it is, the number
// reported equals the decimal value of the string the result points to, and that string consists of digits only -
// two digit groups are never glued into another number.

var c10Seps = []string{" ", "\t", "  ", "\r\n ", "\r\n\t", "\n ", "\n\t", "\r ", "\r\n  \r\n ", " \r\n ", "\r\n \r\n\t ", ",", ".", "+", "-", "_", "e", "x", "'", "\"", ";", ":", "\x00", "\xa0", "\r\n", "\n", "\r"}
var c10Groups = []string{"3", "36", "0", "00", "1", "4294967295", "16777216", "999999999"}

func evalC10Split(pos string, text []byte) (vs []*Violation) {
	add := func(site, rule, class, detail string) {
		c := mkCase("C10split", site, nil, text, nil)
		c.Extra = map[string]any{"pos": pos}
		vs = append(vs, &Violation{Property: "C10", Site: site, Rule: rule, Class: class, Detail: detail, Case: c})
	}
	defer recoverTo4("library-call", add)
	chk := func(site string, field []byte, val uint64) {
		f := bigOf(field)
		if f == nil || new(big.Int).SetUint64(val).Cmp(f) != 0 {
			add(site, "value-equals-digit-string", "interrupted-digits", fmt.Sprintf("%q: %q reported as %d", text, field, val))
		}
	}
	switch pos {
	case "clen", "expires":
		buf := append(append([]byte(nil), text...), "\r\nX"...)
		var b sipsp.PUIntBody
		if pos == "clen" {
			if _, e := sipsp.ParseCLenVal(buf, 0, &b); e == 0 {
				chk("ParseCLenVal", b.SVal.Get(buf), uint64(b.UIVal))
			}
		} else if _, e := sipsp.ParseExpiresVal(buf, 0, &b); e == 0 {
			chk("ParseExpiresVal", b.SVal.Get(buf), uint64(b.UIVal))
		}
	case "cseq":
		buf := append(append([]byte(nil), text...), " INVITE\r\nX"...)
		var b sipsp.PCSeqBody
		if _, e := sipsp.ParseCSeqVal(buf, 0, &b); e == 0 {
			chk("ParseCSeqVal", b.CSeq.Get(buf), uint64(b.CSeqNo))
		}
	case "msg":
		// through the message parser: the Content-Length that frames the body is the value of one digit string
		buf := []byte("INVITE sip:a@b SIP/2.0\r\nCSeq: 1 INVITE\r\nExpires: " + string(text) + "\r\nContent-Length: " + string(text) + "\r\n\r\n" + strings.Repeat("b", 40))
		var m sipsp.PSIPMsg
		m.Init(nil, nil, nil)
		if _, e := sipsp.ParseSIPMsg(buf, 0, &m, 0); e == 0 {
			chk("ParseSIPMsg/Content-Length", m.PV.CLen.SVal.Get(buf), uint64(m.PV.CLen.UIVal))
			chk("ParseSIPMsg/Expires", m.PV.Expires.SVal.Get(buf), uint64(m.PV.Expires.UIVal))
			if uint64(m.Body.Len) != uint64(m.PV.CLen.UIVal) {
				add("ParseSIPMsg", "value-equals-digit-string", "interrupted-digits/body", fmt.Sprintf("body of %d bytes for Content-Length %q", m.Body.Len, m.PV.CLen.SVal.Get(buf)))
			}
		}
	}
	return
}

func c10Split(r *Run) {
	var texts []string
	for _, a := range c10Groups {
		for _, b := range c10Groups[:5] {
			for _, s := range c10Seps {
				texts = append(texts, a+s+b, a+s+b+s+a, " "+a+s+b+" ")
			}
		}
	}
	parallelFor(r, len(texts), func(c *enumCtx, i int) {
		for _, pos := range []string{"clen", "expires", "cseq", "msg"} {
			for _, v := range evalC10Split(pos, []byte(texts[i])) {
				r.Col.add(v)
			}
			c.st.Evals++
			c.st.Transitions++
		}
		c.st.addExtra("interrupted_digit_strings", 1)
	})
}

func init() {
	replayers["C10split"] = func(prop string, c *Case) []*Violation {
		pos, _ := c.Extra["pos"].(string)
		return evalC10Split(pos, c.input())
	}
}
