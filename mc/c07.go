package main

import (
	"encoding/json"
	"fmt"
	"sort"
	"strings"
	"time"

	"github.com/intuitivelabs/sipsp"
)

type hdrExp struct {
	Type       sipsp.HdrT
	NS, NE     int // name span
	VS, VE     int // value span (VS==VE: empty)
	LineS, End int // line extent [LineS, End) incl. terminator
}

type hdrLineSpec struct {
	Name, WS, Val, Term string
}

func (l hdrLineSpec) text() string { return l.Name + l.WS + ":" + l.Val + l.Term }

// JSON forms that keep non-UTF-8 bytes (see bstr)
type hdrLineSpecJ struct{ Name, WS, Val, Term bstr }

func (l hdrLineSpec) MarshalJSON() ([]byte, error) {
	return json.Marshal(hdrLineSpecJ{bstr(l.Name), bstr(l.WS), bstr(l.Val), bstr(l.Term)})
}

func (l *hdrLineSpec) UnmarshalJSON(d []byte) error {
	var j hdrLineSpecJ
	if err := json.Unmarshal(d, &j); err != nil {
		return err
	}
	*l = hdrLineSpec{string(j.Name), string(j.WS), string(j.Val), string(j.Term)}
	return nil
}

type valFormJ struct {
	Text   bstr
	VS, VE int
}

func (v valForm) MarshalJSON() ([]byte, error) {
	return json.Marshal(valFormJ{bstr(v.Text), v.VS, v.VE})
}

func (v *valForm) UnmarshalJSON(d []byte) error {
	var j valFormJ
	if err := json.Unmarshal(d, &j); err != nil {
		return err
	}
	*v = valForm{string(j.Text), j.VS, j.VE}
	return nil
}

// value forms: text after the colon, with the expected value span relative to the start of that text
type valForm struct {
	Text   string
	VS, VE int
}

var c07ValForms = []valForm{
	{"", 0, 0}, {"v", 0, 1}, {" v", 1, 2}, {"v  ", 0, 1}, {" v w", 1, 4}, {" v\r\n w", 1, 6}, {"\r\n\tv", 3, 4}, {" v\r w", 1, 5}, {" v\n w", 1, 5},
	{" v \r\n ", 1, 2}, {"\tlong-value;with=stuff,and:colons \t", 1, 34}, {" ", 0, 0}, {" \r\n ", 0, 0},
	{" v\n\tw", 0, 0}, {" v\r\tw", 0, 0}, {"\n\tv", 0, 0}, {" v\r\n\t\r\n w", 0, 0}, {"v\t\n \t", 0, 0},
}

func init() {
	// value spans by construction: first to last byte that is not SP/HT/CR/LF
	for i := range c07ValForms {
		t := c07ValForms[i].Text
		s, e := 0, len(t)
		for s < e && strings.IndexByte(" \t\r\n", t[s]) >= 0 {
			s++
		}
		for e > s && strings.IndexByte(" \t\r\n", t[e-1]) >= 0 {
			e--
		}
		if s == e {
			s, e = 0, 0
		}
		if c07ValForms[i].VS != s || c07ValForms[i].VE != e {
			c07ValForms[i].VS, c07ValForms[i].VE = s, e
		}
	}
}

func isTableKind(t sipsp.HdrT) bool {
	switch t {
	case sipsp.HdrFrom, sipsp.HdrTo, sipsp.HdrCallID, sipsp.HdrCSeq, sipsp.HdrCLen, sipsp.HdrContact, sipsp.HdrExpires, sipsp.HdrPAI:
		return true
	}
	return false
}

// buildBlock renders the lines + blank and computes the expectations by construction.
func buildBlock(lines []hdrLineSpec, vf []valForm, blank string) ([]byte, []hdrExp) {
	var sb strings.Builder
	var exp []hdrExp
	for i, l := range lines {
		s := sb.Len()
		sb.WriteString(l.Name)
		ne := sb.Len()
		sb.WriteString(l.WS)
		sb.WriteString(":")
		vb := sb.Len()
		sb.WriteString(l.Val)
		sb.WriteString(l.Term)
		e := hdrExp{Type: refHdrType([]byte(l.Name)), NS: s, NE: ne, VS: vb + vf[i].VS, VE: vb + vf[i].VE, LineS: s, End: sb.Len()}
		if vf[i].VS == vf[i].VE {
			e.VS, e.VE = 0, 0
		}
		exp = append(exp, e)
	}
	sb.WriteString(blank)
	return []byte(sb.String()), exp
}

// refTokenize: independent reference (split logical lines, unfold, trim) used to cross-check the generator.
func refTokenize(b []byte) (out [][4]int, end int) {
	i := 0
	isWS := func(c byte) bool { return c == ' ' || c == '\t' }
	for i < len(b) {
		// blank line?
		if b[i] == '\n' {
			return out, i + 1
		}
		if b[i] == '\r' {
			if i+1 < len(b) && b[i+1] == '\n' {
				return out, i + 2
			}
			return out, i + 1
		}
		// logical line end
		j := i
		le, next := -1, -1
		for j < len(b) {
			if b[j] == '\r' || b[j] == '\n' {
				n := j + 1
				if b[j] == '\r' && n < len(b) && b[n] == '\n' {
					n++
				}
				if n < len(b) && isWS(b[n]) {
					j = n
					continue
				}
				le, next = j, n
				break
			}
			j++
		}
		if le < 0 {
			return out, -1
		}
		colon := i
		for colon < le && b[colon] != ':' {
			colon++
		}
		ne := colon
		for ne > i && isWS(b[ne-1]) {
			ne--
		}
		vs, ve := colon+1, le
		for vs < ve && (isWS(b[vs]) || b[vs] == '\r' || b[vs] == '\n') {
			vs++
		}
		for ve > vs && (isWS(b[ve-1]) || b[ve-1] == '\r' || b[ve-1] == '\n') {
			ve--
		}
		if vs == ve {
			vs, ve = 0, 0
		}
		out = append(out, [4]int{i, ne, vs, ve})
		i = next
	}
	return out, -1
}

type c07Case struct {
	Lines   []hdrLineSpec
	VF      []valForm
	Blank   string
	Cap     int
	WithVal bool
	Tail    string `json:",omitempty"` // what follows the block in the buffer (default "BODY-BYTES")
	Cut     int    `json:",omitempty"` // > 0: the block arrives in two calls, the first one ending after Cut bytes (own exact-size buffer)
	NilMask uint8  `json:",omitempty"` // with WithVal: a caller-written PHBodies whose getters (bit order From, To, Call-ID, CSeq, CLen, Contacts, Expires, PAIs) return nil
}

// maskedBodies is a caller-written PHBodies: it declines (returns nil for) the bodies selected by nilMask, which
// the interface allows; declined headers are then tokenised like generic ones.
type maskedBodies struct {
	pv      *sipsp.PHdrVals
	nilMask uint8
}

func (m *maskedBodies) GetFrom() *sipsp.PFromBody {
	if m.nilMask&1 != 0 {
		return nil
	}
	return m.pv.GetFrom()
}
func (m *maskedBodies) GetTo() *sipsp.PFromBody {
	if m.nilMask&2 != 0 {
		return nil
	}
	return m.pv.GetTo()
}
func (m *maskedBodies) GetCallID() *sipsp.PCallIDBody {
	if m.nilMask&4 != 0 {
		return nil
	}
	return m.pv.GetCallID()
}
func (m *maskedBodies) GetCSeq() *sipsp.PCSeqBody {
	if m.nilMask&8 != 0 {
		return nil
	}
	return m.pv.GetCSeq()
}
func (m *maskedBodies) GetCLen() *sipsp.PUIntBody {
	if m.nilMask&16 != 0 {
		return nil
	}
	return m.pv.GetCLen()
}
func (m *maskedBodies) GetContacts() *sipsp.PContacts {
	if m.nilMask&32 != 0 {
		return nil
	}
	return m.pv.GetContacts()
}
func (m *maskedBodies) GetExpires() *sipsp.PUIntBody {
	if m.nilMask&64 != 0 {
		return nil
	}
	return m.pv.GetExpires()
}
func (m *maskedBodies) GetPAIs() *sipsp.PPAIs {
	if m.nilMask&128 != 0 {
		return nil
	}
	return m.pv.GetPAIs()
}
func (m *maskedBodies) Reset() { m.pv.Reset() }

// nilBitOf: the getter bit of a header type (0 for types without a value sub-parser).
func nilBitOf(t sipsp.HdrT) uint8 {
	switch t {
	case sipsp.HdrFrom:
		return 1
	case sipsp.HdrTo:
		return 2
	case sipsp.HdrCallID:
		return 4
	case sipsp.HdrCSeq:
		return 8
	case sipsp.HdrCLen:
		return 16
	case sipsp.HdrContact:
		return 32
	case sipsp.HdrExpires:
		return 64
	case sipsp.HdrPAI:
		return 128
	}
	return 0
}

var c07NamedFlag = map[sipsp.HdrT]sipsp.HdrFlags{sipsp.HdrFrom: sipsp.HdrFromF, sipsp.HdrTo: sipsp.HdrToF, sipsp.HdrCallID: sipsp.HdrCallIDF, sipsp.HdrCSeq: sipsp.HdrCSeqF,
	sipsp.HdrVia: sipsp.HdrViaF, sipsp.HdrMaxFwd: sipsp.HdrMaxFwdF, sipsp.HdrCLen: sipsp.HdrCLenF, sipsp.HdrContact: sipsp.HdrContactF, sipsp.HdrExpires: sipsp.HdrExpiresF,
	sipsp.HdrUA: sipsp.HdrUAF, sipsp.HdrRecordRoute: sipsp.HdrRecordRouteF, sipsp.HdrRoute: sipsp.HdrRouteF, sipsp.HdrPAI: sipsp.HdrPAIF, sipsp.HdrOther: sipsp.HdrOtherF}

func evalC07(cs *c07Case) (vs []*Violation) {
	block, exp := buildBlock(cs.Lines, cs.VF, cs.Blank)
	tail := cs.Tail
	if tail == "" {
		tail = "BODY-BYTES"
	}
	buf := append(append([]byte(nil), block...), tail...)
	site := "ParseHeaders"
	add := func(rule, class, detail string) {
		c := mkCase("C07", site, &Cfg{HdrCap: cs.Cap, ValCap: -1, WithVals: cs.WithVal}, block, nil)
		c.Extra = map[string]any{"case": *cs} // a copy: callers re-use their case variables
		vs = append(vs, &Violation{Property: "C07", Site: site, Rule: rule, Class: class, Detail: detail, Case: c})
	}
	defer recoverTo3(add)
	// cross-check the generator with the reference tokenizer
	ref, rend := refTokenize(buf)
	if rend != len(block) || len(ref) != len(exp) {
		add("generator-selfcheck", "reference-disagrees", fmt.Sprintf("ref end %d lines %d vs %d/%d", rend, len(ref), len(block), len(exp)))
		return
	}
	for i := range ref {
		if ref[i] != [4]int{exp[i].NS, exp[i].NE, exp[i].VS, exp[i].VE} {
			add("generator-selfcheck", "reference-disagrees", fmt.Sprintf("line %d ref %v gen %v", i, ref[i], exp[i]))
			return
		}
	}
	var hl sipsp.HdrLst
	hl.Hdrs = mkHdrs(cs.Cap)
	var pv sipsp.PHdrVals
	var n int
	var e sipsp.ErrorHdr
	var hb sipsp.PHBodies
	if cs.WithVal && cs.NilMask != 0 {
		hb = &maskedBodies{&pv, cs.NilMask}
	} else if cs.WithVal {
		hb = &pv
	}
	po := 0
	if cs.Cut > 0 && cs.Cut < len(block) {
		b1 := append(make([]byte, 0, cs.Cut), buf[:cs.Cut]...)
		n1, e1 := sipsp.ParseHeaders(b1, 0, &hl, hb)
		if e1 != sipsp.ErrHdrMoreBytes {
			return // premature verdicts on a prefix are C03's subject
		}
		po = n1
	}
	n, e = sipsp.ParseHeaders(buf, po, &hl, hb)
	if e != 0 {
		add("well-formed-accepted", errName(e), fmt.Sprintf("verdict %v at %d", e, n))
		return
	}
	if n != len(block) {
		add("offset-after-blank-line", "offset", fmt.Sprintf("offset %d want %d", n, len(block)))
	}
	if hl.N != len(exp) {
		add("one-header-per-logical-line", "count", fmt.Sprintf("N=%d want %d", hl.N, len(exp)))
		return
	}
	var wantFlags sipsp.HdrFlags
	first := map[sipsp.HdrT]int{}
	for i, x := range exp {
		wantFlags.Set(x.Type)
		if _, ok := first[x.Type]; !ok {
			first[x.Type] = i
		}
	}
	if hl.PFlags != wantFlags {
		add("type-flags-equal-types-seen", "flags", fmt.Sprintf("PFlags=%#x want %#x", hl.PFlags, wantFlags))
	}
	// the same set read through the exported flag names
	var wantNamed sipsp.HdrFlags
	for t := range first {
		wantNamed |= c07NamedFlag[t]
	}
	if hl.PFlags != wantNamed {
		add("type-flags-equal-types-seen", "exported-flag-names", fmt.Sprintf("PFlags=%#x, OR of the named flags of the types seen %#x", hl.PFlags, wantNamed))
	}
	// the same set through the query methods a caller uses (Test / Any / AllSet)
	var seenT, unseenT []sipsp.HdrT
	for t := sipsp.HdrNone + 1; t <= sipsp.HdrOther; t++ {
		if _, ok := first[t]; ok {
			seenT = append(seenT, t)
		} else {
			unseenT = append(unseenT, t)
		}
		if _, ok := first[t]; ok != hl.PFlags.Test(t) {
			add("type-flags-equal-types-seen", "Test", fmt.Sprintf("Test(%v)=%v", t, hl.PFlags.Test(t)))
		}
	}
	if !hl.PFlags.AllSet(seenT...) || (len(seenT) > 0 && !hl.PFlags.Any(seenT...)) {
		add("type-flags-equal-types-seen", "AllSet/Any-of-seen", fmt.Sprintf("seen %v: AllSet=%v Any=%v", seenT, hl.PFlags.AllSet(seenT...), hl.PFlags.Any(seenT...)))
	}
	if hl.PFlags.Any(unseenT...) {
		add("type-flags-equal-types-seen", "Any-of-unseen", fmt.Sprintf("unseen %v: Any=true", unseenT))
	}
	for _, u := range unseenT {
		if hl.PFlags.AllSet(append(append([]sipsp.HdrT(nil), seenT...), u)...) || hl.PFlags.AllSet(u, seenT[0]) {
			add("type-flags-equal-types-seen", "AllSet-with-an-unseen-type", fmt.Sprintf("seen %v + unseen %v: AllSet=true", seenT, u))
			break
		}
	}
	cmp := func(h *sipsp.Hdr, x hdrExp, what string, rulePfx string) {
		if h.Type != x.Type {
			add(rulePfx+"type-is-classification-of-name", what, fmt.Sprintf("%s: type %v want %v (name %q)", what, h.Type, x.Type, buf[x.NS:x.NE]))
		}
		if int(h.Name.Offs) != x.NS || int(h.Name.Offs+h.Name.Len) != x.NE {
			add(rulePfx+"name-without-surrounding-ws", what, fmt.Sprintf("%s: name %v want [%d,%d)", what, h.Name, x.NS, x.NE))
		}
		if x.VS == x.VE {
			if h.Val.Len != 0 {
				add(rulePfx+"value-first-to-last-non-ws", what+"-empty", fmt.Sprintf("%s: val %v want empty", what, h.Val))
			}
		} else if int(h.Val.Offs) != x.VS || int(h.Val.Offs+h.Val.Len) != x.VE {
			add(rulePfx+"value-first-to-last-non-ws", what, fmt.Sprintf("%s: val %v=%q want [%d,%d)=%q", what, h.Val, h.Val.Get(buf), x.VS, x.VE, buf[x.VS:x.VE]))
		}
	}
	for i := 0; i < len(exp) && i < len(hl.Hdrs); i++ {
		cmp(&hl.Hdrs[i], exp[i], "stored", "")
	}
	for t := sipsp.HdrNone + 1; t < sipsp.HdrOther; t++ {
		h := hl.GetHdr(t)
		if i, ok := first[t]; ok {
			if h == nil || h.Missing() {
				add("first-of-type-lookup", "missing", fmt.Sprintf("GetHdr(%v) missing", t))
			} else {
				cmp(h, exp[i], "first-of-type", "first-of-type:")
			}
		} else if h != nil && !h.Missing() {
			add("first-of-type-lookup", "spurious", fmt.Sprintf("GetHdr(%v) present", t))
		}
	}
	return
}

func c07Names() (all []string, generic []string) {
	seen := map[string]bool{}
	addn := func(n string) {
		if !seen[n] {
			seen[n] = true
			all = append(all, n)
			if !isTableKind(refHdrType([]byte(n))) {
				generic = append(generic, n)
			}
		}
	}
	titles := []string{"From", "f", "To", "t", "Call-ID", "i", "CSeq", "Via", "v", "Max-Forwards", "Content-Length", "l", "Contact", "m", "Expires", "User-Agent", "Record-Route", "Route", "P-Asserted-Identity"}
	for _, n := range titles {
		addn(n)
		addn(strings.ToLower(n))
		addn(strings.ToUpper(n))
	}
	for _, n := range []string{"k", "X-Long-Header-Name", "Cantact", "Vib", "frob", "E", "x!%*_+`'~-."} {
		addn(n)
	}
	// every one-byte token name (compact forms are one byte: all the others must classify as generic)
	for b := byte(33); b < 127; b++ {
		if b != ':' {
			addn(string([]byte{b}))
		}
	}
	return
}

func checkC07(r *Run) {
	r.Assume = []string{"hb=nil for every name (pure tokenisation); hb=&PHdrVals only for names whose type has no value sub-parser (the value sub-parsers have their own grammar, see C09/C10)",
		"lone CR line ends are not followed by an LF-started blank line (inherently ambiguous)"}
	all, generic := c07Names()
	wss := []string{"", " ", "\t ", strings.Repeat(" \t", 20)}
	terms := []string{"\r\n", "\r", "\n"}
	type lv struct {
		l  hdrLineSpec
		vf valForm
	}
	mk := func(names []string, vfs []valForm, wss, terms []string) []lv {
		var out []lv
		for _, n := range names {
			for _, w := range wss {
				for _, v := range vfs {
					for _, t := range terms {
						out = append(out, lv{hdrLineSpec{n, w, v.Text, t}, v})
					}
				}
			}
		}
		return out
	}
	full := mk(all, c07ValForms, wss, terms)
	red := mk([]string{"From", "v", "X-Long-Header-Name", "contact", "k", "L"}, c07ValForms[:8], wss[:2], terms)
	tiny := mk([]string{"To", "via", "E"}, []valForm{c07ValForms[0], c07ValForms[1], c07ValForms[5]}, wss[:1], terms)
	blanks := []string{"\r\n", "\n", "\r"}
	okBlank := func(last hdrLineSpec, b string) bool { return !(last.Term == "\r" && b == "\n") }
	okSeq := func(a, b hdrLineSpec) bool { return true }
	_ = okSeq
	caps := func(n int) []int { return []int{0, 1, n - 1, n, n + 1, -1} }
	runCase := func(c *enumCtx, cs0 *c07Case) {
		cs1 := *cs0 // own copy: violations keep a pointer to their case and callers re-use theirs
		cs := &cs1
		vs := evalC07(cs)
		c.st.Evals++
		c.st.Transitions++
		c.st.States++
		c.st.Outcomes[fmt.Sprintf("lines=%d cap=%d hb=%v", len(cs.Lines), cs.Cap, cs.WithVal)]++
		if len(cs.Lines) > 1 || cs.VF[0].VE-cs.VF[0].VS > 1 {
			c.st.Nontrivial++
		}
		for _, v := range vs {
			r.Col.add(v)
		}
	}
	// the same block delivered in two calls, for every position of the cut (what is reported is the same)
	runCuts := func(c *enumCtx, cs *c07Case) {
		n := 0
		for _, l := range cs.Lines {
			n += len(l.text())
		}
		n += len(cs.Blank)
		for cut := 1; cut < n; cut++ {
			cc := *cs
			cc.Cut = cut
			for _, v := range evalC07(&cc) {
				r.Col.add(v)
			}
			c.st.Evals++
			c.st.Transitions += 2
			c.st.addExtra("two_call_deliveries", 1)
		}
	}
	// 1-line blocks: full menu x blanks x caps x (hb nil; hb non-nil for generic names)
	isGeneric := map[string]bool{}
	for _, g := range generic {
		isGeneric[g] = true
	}
	parallelFor(r, len(full), func(c *enumCtx, i int) {
		a := full[i]
		for _, b := range blanks {
			if !okBlank(a.l, b) {
				continue
			}
			for _, cp := range []int{0, 1, 2, -1} {
				runCase(c, &c07Case{Lines: []hdrLineSpec{a.l}, VF: []valForm{a.vf}, Blank: b, Cap: cp})
				if isGeneric[a.l.Name] {
					runCase(c, &c07Case{Lines: []hdrLineSpec{a.l}, VF: []valForm{a.vf}, Blank: b, Cap: cp, WithVal: true})
				}
				// a caller-written PHBodies that declines every body, or exactly the one of this header's type
				runCase(c, &c07Case{Lines: []hdrLineSpec{a.l}, VF: []valForm{a.vf}, Blank: b, Cap: cp, WithVal: true, NilMask: 0xff})
				if cp == 0 || cp == -1 {
					runCuts(c, &c07Case{Lines: []hdrLineSpec{a.l}, VF: []valForm{a.vf}, Blank: b, Cap: cp})
					runCuts(c, &c07Case{Lines: []hdrLineSpec{a.l}, VF: []valForm{a.vf}, Blank: b, Cap: cp, WithVal: true, NilMask: 0xff})
				}
				if bit := nilBitOf(sipsp.GetHdrType([]byte(a.l.Name))); bit != 0 {
					runCase(c, &c07Case{Lines: []hdrLineSpec{a.l}, VF: []valForm{a.vf}, Blank: b, Cap: cp, WithVal: true, NilMask: bit})
				}
			}
		}
		// 2-line blocks: full x reduced (both orders)
		step := 1
		if r.quick() {
			step = 3
		}
		for j := i % step; j < len(red); j += step {
			b2 := red[j]
			for _, pair := range [][2]lv{{a, b2}, {b2, a}} {
				for _, b := range blanks[:2] {
					if !okBlank(pair[1].l, b) {
						continue
					}
					cp := caps(2)[(i+j)%6]
					runCase(c, &c07Case{Lines: []hdrLineSpec{pair[0].l, pair[1].l}, VF: []valForm{pair[0].vf, pair[1].vf}, Blank: b, Cap: cp,
						WithVal: isGeneric[pair[0].l.Name] && isGeneric[pair[1].l.Name] && j%2 == 0})
					if (i+j)%5 == 0 {
						runCuts(c, &c07Case{Lines: []hdrLineSpec{pair[0].l, pair[1].l}, VF: []valForm{pair[0].vf, pair[1].vf}, Blank: b, Cap: cp,
							WithVal: isGeneric[pair[0].l.Name] && isGeneric[pair[1].l.Name] && j%2 == 0})
					}
					if (i+j)%2 == 0 {
						mask := uint8(0xff)
						if b1, b2 := nilBitOf(sipsp.GetHdrType([]byte(pair[0].l.Name))), nilBitOf(sipsp.GetHdrType([]byte(pair[1].l.Name))); (i+j)%4 == 0 && b1|b2 != 0 {
							mask = b1 | b2
						}
						runCase(c, &c07Case{Lines: []hdrLineSpec{pair[0].l, pair[1].l}, VF: []valForm{pair[0].vf, pair[1].vf}, Blank: b, Cap: cp, WithVal: true, NilMask: mask})
					}
				}
			}
		}
	})
	// every byte value except CR / LF inside a generic header's value (first, middle, last position) and UTF-8 text
	parallelFor(r, 256, func(c *enumCtx, x int) {
		if x == '\r' || x == '\n' {
			return
		}
		xs := string([]byte{byte(x)})
		texts := []string{" a" + xs + "b", " a" + xs + "b c" + xs, " caf\xc3\xa9 " + xs + "\xe2\x82\xac"}
		if x != ' ' && x != '\t' {
			texts = append(texts, xs+"a", " "+xs, " a "+xs+" ")
		}
		for _, t := range texts {
			vf := valForm{Text: t}
			vs, ve := 0, len(t)
			for vs < ve && strings.IndexByte(" \t", t[vs]) >= 0 {
				vs++
			}
			for ve > vs && strings.IndexByte(" \t", t[ve-1]) >= 0 {
				ve--
			}
			vf.VS, vf.VE = vs, ve
			for ni, n := range []string{"Subject", "X-Gen", "v", "User-Agent"} {
				l := hdrLineSpec{n, wss[ni%len(wss)], t, terms[(x+ni)%3]}
				runCase(c, &c07Case{Lines: []hdrLineSpec{l}, VF: []valForm{vf}, Blank: "\r\n", Cap: -1})
				runCase(c, &c07Case{Lines: []hdrLineSpec{l, red[x%len(red)].l}, VF: []valForm{vf, red[x%len(red)].vf}, Blank: "\r\n", Cap: 2, WithVal: true, NilMask: 0xff})
			}
		}
	})
	// 3-4 line blocks from reduced menus
	parallelFor(r, len(red), func(c *enumCtx, i int) {
		for j := range tiny {
			for k := range tiny {
				ls := []lv{red[i], tiny[j], tiny[k]}
				if (i+j+k)%2 == 0 {
					ls = append(ls, red[(i*7+j)%len(red)])
				}
				var cs c07Case
				for _, x := range ls {
					cs.Lines = append(cs.Lines, x.l)
					cs.VF = append(cs.VF, x.vf)
				}
				cs.Blank = blanks[(i+j)%3]
				if !okBlank(cs.Lines[len(cs.Lines)-1], cs.Blank) {
					cs.Blank = "\r\n"
				}
				cs.Cap = caps(len(ls))[(i+k)%6]
				runCase(c, &cs)
				runCuts(c, &cs)
			}
		}
	})
	// blocks that contain every known header type once plus one generic header: every rotation of the type order x every
	// position of the generic header (first-of-type slots and the flag set when all types are present)
	known := []string{"From", "t", "Call-ID", "CSeq", "v", "Max-Forwards", "l", "Contact", "Expires", "User-Agent", "Record-Route", "Route", "P-Asserted-Identity"}
	parallelFor(r, len(known)*(len(known)+1), func(c *enumCtx, idx int) {
		rot, gpos := idx/(len(known)+1), idx%(len(known)+1)
		var cs c07Case
		vf := c07ValForms[2]
		for i := 0; i <= len(known); i++ {
			if i == gpos {
				cs.Lines = append(cs.Lines, hdrLineSpec{"X-Generic", "", vf.Text, "\r\n"})
				cs.VF = append(cs.VF, vf)
			}
			if i < len(known) {
				cs.Lines = append(cs.Lines, hdrLineSpec{known[(i+rot)%len(known)], "", vf.Text, "\r\n"})
				cs.VF = append(cs.VF, vf)
			}
		}
		cs.Blank = "\r\n"
		for _, cp := range []int{-1, 0, 13, 14, 20} {
			cs.Cap = cp
			runCase(c, &cs)
			cc := cs
			cc.WithVal, cc.NilMask = true, 0xff
			runCase(c, &cc)
		}
	})
	// every ordered pair (and the triples of the lower-case names) of table names, each with a value that is well formed
	// for its kind, through the library's value store, a declining store and no store: repeated single-instance headers
	// (a second Content-Length, Expires, From ...) are header lines like any other
	{
		var tn []string
		for n := range hdrTable {
			tn = append(tn, n)
		}
		sort.Strings(tn)
		var spell []string
		for _, n := range tn {
			spell = append(spell, n, strings.ToUpper(n))
		}
		spell = append(spell, "X-Other")
		mkc := func(names ...string) c07Case {
			var cs c07Case
			for _, n := range names {
				v := " " + c16ValueFor(refHdrType([]byte(n)))
				cs.Lines = append(cs.Lines, hdrLineSpec{n, "", v, "\r\n"})
				cs.VF = append(cs.VF, valForm{v, 1, len(v)})
			}
			cs.Blank = "\r\n"
			return cs
		}
		parallelFor(r, len(spell), func(c *enumCtx, i int) {
			runAll := func(cs c07Case) {
				for _, cp := range []int{-1, 1} {
					cs.Cap = cp
					cs.WithVal, cs.NilMask = false, 0
					runCase(c, &cs)
					cs.WithVal = true
					runCase(c, &cs)
					cs.NilMask = 0xff
					runCase(c, &cs)
				}
			}
			for _, b := range spell {
				runAll(mkc(spell[i], b))
			}
			if i < len(tn) {
				for _, b := range tn {
					for _, d := range tn {
						if tn[i] == b || b == d || tn[i] == d {
							runAll(mkc(tn[i], b, d))
						}
					}
				}
			}
		})
	}
	// what follows the block (the first body bytes) does not matter: blanks, line ends, a colon, header look-alikes,
	// for every blank-line form and terminator (not LF after a lone-CR blank line: that is a CRLF blank line)
	parallelFor(r, len(red), func(c *enumCtx, i int) {
		for _, b := range blanks {
			if !okBlank(red[i].l, b) {
				continue
			}
			for _, tl := range []string{" body", "\tb", "\r\nx", "\nx", "\rx", ":", "X: y\r\n", "\x00", " ", "\r"} {
				if b == "\r" && tl[0] == '\n' {
					continue
				}
				for _, cp := range []int{-1, 0} {
					runCase(c, &c07Case{Lines: []hdrLineSpec{red[i].l}, VF: []valForm{red[i].vf}, Blank: b, Cap: cp, Tail: tl})
					runCase(c, &c07Case{Lines: []hdrLineSpec{red[i].l, tiny[i%len(tiny)].l}, VF: []valForm{red[i].vf, tiny[i%len(tiny)].vf}, Blank: b, Cap: cp, Tail: tl, WithVal: true, NilMask: 0xff})
				}
			}
		}
	})
	// 60-line blocks per terminator
	for ti, t := range terms {
		var cs c07Case
		for i := 0; i < 60; i++ {
			x := full[(i*97+ti*13)%len(full)]
			l := x.l
			l.Term = t
			cs.Lines = append(cs.Lines, l)
			cs.VF = append(cs.VF, x.vf)
		}
		cs.Blank = "\r\n"
		if t == "\n" {
			cs.Blank = "\n"
		}
		for _, cp := range []int{0, 1, 10, 59, 60, 61, -1} {
			cs.Cap = cp
			c0 := &enumCtx{r: r, st: newStats()}
			runCase(c0, &cs)
			r.St.merge(c0.st)
		}
	}
	b, _ := buildBlock([]hdrLineSpec{full[5].l, red[3].l}, []valForm{full[5].vf, red[3].vf}, "\r\n")
	r.St.sample(fmt.Sprintf("%q", b))
	r.Bounds["line_menu_full"] = len(full)
	r.Bounds["line_menu_reduced"] = len(red)
}

func init() {
	replayers["C07"] = func(prop string, c *Case) []*Violation {
		var cs c07Case
		remarshal(c.Extra["case"], &cs)
		return evalC07(&cs)
	}
	register("C07", &checkDef{fn: checkC07,
		rule:        "E4: generated well-formed header blocks (name x ws-before-colon x value form x terminator; 1-2 lines from the full menu, 3-4 from reduced menus, 60-line blocks; capacities 0,1,N-1,N,N+1,nil) through ParseHeaders; expectations by construction, cross-checked by an independent reference tokenizer; non-trivial = block with > 1 line or a multi-byte value",
		quickBudget: 150 * time.Second, thorBudget: 15 * time.Minute})
}
