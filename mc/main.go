package main

import (
	"encoding/json"
	"flag"
	"fmt"
	"os"
	"runtime/debug"
	"runtime/pprof"
	"sort"
	"strconv"
	"time"
)

type checkDef struct {
	fn          func(r *Run)
	rule        string
	quickBudget time.Duration
	thorBudget  time.Duration
}

var checks = map[string]*checkDef{}

var onlyPart string

func register(id string, c *checkDef) { checks[id] = c }

func main() {
	if len(os.Args) < 2 {
		usage()
	}
	switch os.Args[1] {
	case "check":
		fs := flag.NewFlagSet("check", flag.ExitOnError)
		tier := fs.String("tier", "", "quick|thorough")
		dir := fs.String("dir", "/verif", "verif dir")
		budget := fs.Duration("budget", 0, "override time budget")
		workers := fs.Int("workers", 0, "override worker count")
		only := fs.String("only", "", "debug: run only the named part of a check")
		prof := fs.String("cpuprofile", "", "debug: write a CPU profile")
		if len(os.Args) < 3 {
			usage()
		}
		id := os.Args[2]
		fs.Parse(os.Args[3:])
		verifDir = *dir
		if *tier == "" {
			*tier = os.Getenv("VERIF_TIER")
		}
		if *tier == "" {
			*tier = "quick"
		}
		cd := checks[id]
		if cd == nil {
			fmt.Fprintf(os.Stderr, "unknown check %s\n", id)
			os.Exit(2)
		}
		seed, _ := strconv.Atoi(os.Getenv("VERIF_SEED"))
		r := &Run{Prop: id, Tier: *tier, Seed: seed, Start: time.Now(), Col: newCollector(), St: newStats(), Rule: cd.rule,
			Bounds: map[string]any{}, Workers: defaultWorkers()}
		b := cd.quickBudget
		if *tier == "thorough" {
			b = cd.thorBudget
		}
		if *budget != 0 {
			b = *budget
		}
		if *workers > 0 {
			r.Workers = *workers
		}
		onlyPart = *only
		r.Deadline = r.Start.Add(b)
		r.Bounds["time_budget_s"] = b.Seconds()
		if *prof != "" {
			f, _ := os.Create(*prof)
			pprof.StartCPUProfile(f)
			defer pprof.StopCPUProfile()
		}
		debug.SetGCPercent(400)
		startWatchdog(r)
		cd.fn(r)
		code := r.finish()
		if *prof != "" {
			pprof.StopCPUProfile()
		}
		os.Exit(code)
	case "replay":
		if len(os.Args) < 3 {
			usage()
		}
		b, err := os.ReadFile(os.Args[2])
		if err != nil {
			fmt.Fprintln(os.Stderr, err)
			os.Exit(2)
		}
		var v Violation
		if err := json.Unmarshal(b, &v); err != nil {
			fmt.Fprintln(os.Stderr, err)
			os.Exit(2)
		}
		vs := replayCase(v.Property, v.Case)
		hit := false
		for _, x := range vs {
			fmt.Printf("replay: %s %s %s %s: %s\n", x.Property, x.Site, x.Rule, x.Class, x.Detail)
			if x.id() == v.id() {
				hit = true
			}
		}
		if hit {
			fmt.Printf("VIOLATION property=%s replay=%s\n", v.Property, os.Args[2])
			os.Exit(1)
		}
		fmt.Println("replay: recorded violation does not occur on this tree")
		os.Exit(0)
	case "list":
		var ids []string
		for k := range checks {
			ids = append(ids, k)
		}
		sort.Strings(ids)
		for _, k := range ids {
			fmt.Println(k)
		}
	default:
		usage()
	}
}

func usage() {
	fmt.Fprintln(os.Stderr, "usage: mc check <ID> [--tier quick|thorough] | mc replay <file> | mc list")
	os.Exit(2)
}
