package main

import (
	"bytes"
	"fmt"
	"regexp"
	"strings"
	"sync"
	"sync/atomic"
	"time"

	"github.com/intuitivelabs/sipsp"
)

// fingerprinted headers in signature-id order
type sigHdrDef struct {
	Long, Compact string
	Val           string
	Type          sipsp.HdrT
}

var sigHdrDefs = []sigHdrDef{
	{"Call-ID", "i", "abc-DEF@1.2.3.4", sipsp.HdrCallID},
	{"Contact", "m", "<sip:c@h>;expires=7", sipsp.HdrContact},
	{"CSeq", "", "10 %M", sipsp.HdrCSeq},
	{"From", "f", "\"A\" <sip:a@b>;tag=f00-BAR_9", sipsp.HdrFrom},
	{"Max-Forwards", "", "70", sipsp.HdrMaxFwd},
	{"To", "t", "<sip:c@d>", sipsp.HdrTo},
	{"Via", "v", "SIP/2.0/UDP h:5060;rport;branch=z9hG4bKabc123def", sipsp.HdrVia},
	{"User-Agent", "", "ua/1.0 (x)", sipsp.HdrUA},
}

// alternative values of fingerprinted strings whose character-class signature is zero or minimal
var sigValVariants = map[sipsp.HdrT][]string{
	sipsp.HdrVia: {"SIP/2.0/UDP h;branch=z9hG4bKabc", "SIP/2.0/UDP h:5060;rport", "SIP/2.0/UDP h;rport;branch=z9hG4bK.a-b_c, SIP/2.0/TCP other;branch=zzz9", "SIP/2.0/UDP h;branch=z9hG4bKabc123def ,SIP/2.0/UDP o2",
		"SIP/2.0/UDP a, SIP/2.0/UDP b;branch=z9hG4bKx.y-z", "SIP/2.0/UDP a ,SIP/2.0/TCP b;rport;branch=q-1",
		"SIP/2.0/UDP h;ext=\"a,b\";branch=z9hG4bK-77ef_4c21.x", "SIP/2.0/UDP h;ext=\"a;branch=zz\\\",\" ;BRANCH = z9hG4bK.1-2 ;x=\",\", SIP/2.0/UDP o;branch=other.1",
		"SIP/2.0/UDP h;branches=zz-1.x;Branch-Hint=q_1;branch=z9hG4bKabc", "SIP/2.0/UDP h;branchid=a-b.c_d;rport", "SIP/2.0/UDP h;bran=x-1;xbranch=y.2;branch=z9hG4bK-q.1", "SIP/2.0/UDP h;x=\"ab\\\\\";y=\"\\\\\";branch=z9hG4bKa.b-c",
		// parameters whose values are hosts / addresses (gen-value = token / host / quoted-string) in front of the branch
		"SIP/2.0/UDP h;received=2001:db8::2;branch=z9hG4bK-74bf9.a1_x", "SIP/2.0/UDP [2001:db8::1]:5060;maddr=[ff02::1];ttl=1;branch=z9hG4bKa.b-c", "SIP/2.0/TLS h:5061;x=a/b$c+d;rport;branch=z9hG4bK.1-2"},
	sipsp.HdrCallID: {"abc", "x@y"},
	sipsp.HdrFrom:   {"<sip:a@b>;tag=t", "sip:a@b"},
}

var sigRepeatVals = []string{"other-id@9.9.9.9", "<sip:other@x>", "11 %M", "<sip:zz@y>;tag=OTHER+/=", "3", "<sip:o@p>;tag=q", "SIP/2.0/TCP o;branch=zzz.1", "other"}

var fillerLines = []string{"X-F: 1", "Expires: 5", "Route: <sip:r;lr>", "Record-Route: <sip:rr;lr>", "P-Asserted-Identity: <sip:p@q>", "Subject: s"}
var fillerAlt = []string{"X-F: changed value", "Expires: 77", "Route: <sip:r2;lr>, <sip:r3>", "Record-Route: <sip:q>", "P-Asserted-Identity: \"Z\" <sip:z@q>, <tel:+1>", "Subject:"}

type c19Case struct {
	Method  string
	Order   []int // indices into sigHdrDefs, in message order
	Compact int   // bit i set: header Order[i] uses its compact form (if it has one)
	Fillers []int // for each gap 0..len(Order): filler index+1 (0 = none); >100: alt value of filler-101
	Repeat  int   // index into sigHdrDefs of a header repeated at the end (-1 none)
	Cap     int   // header array capacity (-1: built-in)
	Cut     int   // single chunk cut (-1: one shot)
	Reply   bool
	Code    string // reply status code (default 200)
	Var     int    // variant of the fingerprinted strings (Via branch / Call-ID / From tag with an all-zero class signature)
	Offs    int    `json:",omitempty"` // start offset of the request in the buffer (behind an earlier message of the stream)
	CSeqM   string `json:",omitempty"` // method token written in the CSeq value when it is not the request method (a value of a header, not the method)
	PrevCut int    `json:",omitempty"` // > 0: the same object (and header array) first got that many bytes of c19PrevMsg, was abandoned and reset
	PrevOp  string `json:",omitempty"` // "Reset" or "Init" (with the same header array)
}

// c19PrevMsg: an earlier message on the same connection; whatever part of it the object saw must not show in the
// signature of the next request.
var c19PrevMsg = []byte("SUBSCRIBE sip:prev@example.net SIP/2.0\r\nMax-Forwards: 69\r\nv: SIP/2.0/TCP prev.example.net;branch=z9hG4bK-PREV.1\r\nUser-Agent: prev\r\nt: <sip:prev@example.net>\r\nf: <sip:me@example.net>;tag=PREV\r\ni: PREV-CALL-ID@10.0.0.9\r\nCSeq: 4711 SUBSCRIBE\r\nm: <sip:me@10.0.0.9>\r\nl: 0\r\n\r\n")

func (cs *c19Case) render() (msg []byte, nh int, want []sipsp.HdrSigId, cid, via string) {
	var sb strings.Builder
	if cs.Reply {
		code := cs.Code
		if code == "" {
			code = "200"
		}
		sb.WriteString("SIP/2.0 " + code + " OK\r\n")
	} else {
		sb.WriteString(cs.Method + " sip:x@y SIP/2.0\r\n")
	}
	m := cs.Method
	filler := func(g int) {
		if g < len(cs.Fillers) && cs.Fillers[g] != 0 {
			f := cs.Fillers[g]
			if f > 100 {
				sb.WriteString(fillerAlt[f-101] + "\r\n")
			} else {
				sb.WriteString(fillerLines[f-1] + "\r\n")
			}
			nh++
		}
	}
	for i, h := range cs.Order {
		filler(i)
		d := sigHdrDefs[h]
		name := d.Long
		compact := cs.Compact>>i&1 == 1 && d.Compact != ""
		if compact {
			name = d.Compact
		}
		val := strings.ReplaceAll(d.Val, "%M", m)
		if cs.CSeqM != "" && d.Type == sipsp.HdrCSeq {
			val = strings.ReplaceAll(d.Val, "%M", cs.CSeqM)
		}
		if alt, ok := sigValVariants[d.Type]; ok && cs.Var > 0 {
			val = alt[(cs.Var-1)%len(alt)]
		}
		sb.WriteString(name + ": " + val + "\r\n")
		nh++
		if d.Type == sipsp.HdrContact && m != "INVITE" {
			// Contact is fingerprinted for INVITE only
		} else {
			id := sipsp.HdrSigId(h)
			if compact {
				id |= sipsp.HdrSigIdCMask
			}
			want = append(want, id)
		}
		if d.Type == sipsp.HdrCallID {
			cid = val
		}
		if d.Type == sipsp.HdrVia {
			via = val // the whole header value; refViaBranch finds the first value's branch
		}
	}
	filler(len(cs.Order))
	if cs.Repeat >= 0 {
		d := sigHdrDefs[cs.Repeat]
		present := false
		for _, h := range cs.Order {
			if h == cs.Repeat {
				present = true
			}
		}
		if present {
			sb.WriteString(d.Long + ": " + strings.ReplaceAll(sigRepeatVals[cs.Repeat], "%M", m) + "\r\n")
			nh++
		}
	}
	sb.WriteString("\r\n")
	return []byte(sb.String()), nh, want, cid, via
}

// outcome counters (verdict of GetMsgSig), merged into the evidence
var c19Out sync.Map

func c19Outcome(k string) {
	v, _ := c19Out.LoadOrStore(k, new(int64))
	atomic.AddInt64(v.(*int64), 1)
}

var sigStrRe = regexp.MustCompile(`^$|^[0-9a-f]{1,9}I[0-9a-f]{6}F[0-9a-f]{4}V[0-9a-f]{4}$`)

func parseForSig(msg []byte, capn, cut int) (*sipsp.PSIPMsg, sipsp.ErrorHdr) {
	return parseForSigPrev(msg, capn, cut, 0, "", 0)
}

func parseForSigPrev(msg []byte, capn, cut, prevCut int, prevOp string, start int) (*sipsp.PSIPMsg, sipsp.ErrorHdr) {
	if start > 0 {
		// the request lies behind earlier stream data (copies of the previous message)
		pre := bytes.Repeat(c19PrevMsg, start/len(c19PrevMsg)+1)[:start]
		msg = append(append([]byte(nil), pre...), msg...)
		if cut > 0 {
			cut += start
		}
	}
	m := new(sipsp.PSIPMsg)
	hdrs := mkHdrs(capn)
	m.Init(nil, hdrs, nil)
	if prevCut > 0 {
		sipsp.ParseSIPMsg(c19PrevMsg[:prevCut], 0, m, sipsp.SIPMsgSkipBodyF)
		if prevOp == "Init" {
			m.Init(nil, hdrs, nil)
		} else {
			m.Reset()
		}
	}
	offs := start
	if cut > 0 && cut < len(msg) {
		n, e := sipsp.ParseSIPMsg(msg[:cut], start, m, sipsp.SIPMsgSkipBodyF)
		if e != sipsp.ErrHdrMoreBytes {
			return m, e
		}
		offs = n
	}
	_, e := sipsp.ParseSIPMsg(msg, offs, m, sipsp.SIPMsgSkipBodyF)
	return m, e
}

// evalC19 checks one generated message against the by-construction signature and its base variant.
func evalC19(cs *c19Case) (vs []*Violation) {
	msg, nh, want, cid, via := cs.render()
	add := func(rule, class, detail string) {
		c := mkCase("C19", "GetMsgSig", &Cfg{HdrCap: cs.Cap, ValCap: -1}, msg, nil)
		c.Extra = map[string]any{"case": *cs} // a copy: callers re-use their case variables
		vs = append(vs, &Violation{Property: "C19", Site: "GetMsgSig", Rule: rule, Class: class, Detail: detail, Case: c})
	}
	defer recoverTo3(add)
	if nh == 0 {
		return // a message without any header is rejected by the parser (empty header block): nothing to sign
	}
	m, e := parseForSigPrev(msg, cs.Cap, cs.Cut, cs.PrevCut, cs.PrevOp, cs.Offs)
	if e != 0 {
		add("generated-message-parses", errName(e), fmt.Sprintf("verdict %v", e))
		return
	}
	var sig sipsp.MsgSig
	var se sipsp.ErrorHdr
	if _, pm := guarded(func() string { sig, se = sipsp.GetMsgSig(m); return "" }); pm != "" {
		add("no-panic", "panic", pm)
		return
	}
	if !sigStrRe.MatchString(sig.String()) {
		add("text-rendering-well-formed", "string", fmt.Sprintf("%q", sig.String()))
	}
	if sig.HdrSigLen > 8 || sig.HdrSigLen < 0 {
		add("at-most-eight-entries", "len", fmt.Sprint(sig.HdrSigLen))
		return
	}
	if cs.Reply {
		if se != sipsp.ErrHdrEmpty {
			add("replies-yield-no-signature", "status-"+map[bool]string{true: "000", false: "other"}[cs.Code == "000"], fmt.Sprintf("verdict %v sig %q", se, sig.String()))
		}
		return
	}
	capn := cs.Cap
	if capn < 0 {
		capn = 10
	}
	c19Outcome(errName(se))
	if se == sipsp.ErrHdrTrunc {
		if capn >= nh {
			add("truncated-only-when-headers-do-not-fit", "trunc", fmt.Sprintf("capacity %d headers %d", capn, nh))
		}
		return
	}
	if se != sipsp.ErrHdrOk {
		add("request-yields-signature", errName(se), fmt.Sprintf("verdict %v", se))
		return
	}
	// by construction
	if sig.Method != refMethod([]byte(cs.Method)) {
		add("method", "method", fmt.Sprintf("Method=%d", sig.Method))
	}
	got := sig.HdrSig[:sig.HdrSigLen]
	if fmt.Sprint(got) != fmt.Sprint(want) {
		cl := "order-or-form"
		if cs.Repeat >= 0 {
			cl = "with-repetition"
		}
		add("header-order-and-form-of-first-occurrences", cl, fmt.Sprintf("HdrSig=%v want %v", got, want))
	}
	cs0, cl0 := sipsp.GetCallIDSig([]byte(cid))
	if sig.CidSig != cs0 || sig.CidSLen != cl0 {
		add("call-id-character-classes", "cid", fmt.Sprintf("CidSig=%#x,%d want %#x,%d", sig.CidSig, sig.CidSLen, cs0, cl0))
	}
	// expected class: that of the branch parameter of the first Via value, found by an independent quote-aware
	// scan, computed on the canonical text "v;branch=<value>" (so that neither other parameters nor further
	// values take part)
	var vb sipsp.StrSigId
	if br, ok := refViaBranch(via); ok {
		vb, _ = sipsp.GetViaBrSig([]byte("v;branch=" + br))
	}
	if sig.ViaBSig != vb {
		add("first-via-branch-character-classes", "via", fmt.Sprintf("ViaBSig=%#x want %#x", sig.ViaBSig, vb))
	}
	// metamorphic: equal to the base variant (no fillers, no repetition, ample capacity, one shot)
	base := *cs
	base.Fillers, base.Repeat, base.Cap, base.Cut, base.PrevCut, base.CSeqM, base.Offs = nil, -1, 40, -1, 0, "", 0
	noContact := false
	if cs.Method != "INVITE" {
		// in a non-INVITE request Contact is one of the "other" headers: the base variant has none
		base.Order, base.Compact = nil, 0
		for i, h := range cs.Order {
			if sigHdrDefs[h].Type == sipsp.HdrContact {
				noContact = true
				continue
			}
			base.Compact |= (cs.Compact >> i & 1) << len(base.Order)
			base.Order = append(base.Order, h)
		}
	}
	bm, _, _, _, _ := base.render()
	pm, be := parseForSig(bm, 40, -1)
	if be != 0 {
		return
	}
	bsig, bse := sipsp.GetMsgSig(pm)
	if bse == sipsp.ErrHdrOk && bsig != sig {
		cl := ""
		switch {
		case cs.Offs > 0:
			cl = "start-offset"
		case cs.CSeqM != "":
			cl = "cseq-value-names-another-method"
		case noContact && cs.PrevCut == 0 && cs.Repeat < 0 && len(cs.Fillers) == 0 && cs.Cut < 0:
			cl = "contact-in-non-invite"
		case cs.PrevCut > 0:
			cl = "object-history"
		case cs.Repeat >= 0:
			cl = "repetition"
		case len(cs.Fillers) > 0:
			cl = "fillers"
		case cs.Cut >= 0:
			cl = "chunking"
		default:
			cl = "capacity"
		}
		add("unchanged-by-unfingerprinted-differences", cl, fmt.Sprintf("sig %q base %q", sig.String(), bsig.String()))
	}
	return
}

// refViaBranch: value of the first "branch" parameter of the first comma-separated Via value (quote-aware).
func refViaBranch(via string) (string, bool) {
	cut := func(t string, sep byte) []string {
		var out []string
		q, start := false, 0
		for i := 0; i < len(t); i++ {
			switch {
			case q && t[i] == '\\':
				i++
			case t[i] == '"':
				q = !q
			case !q && t[i] == sep:
				out = append(out, t[start:i])
				start = i + 1
			}
		}
		return append(out, t[start:])
	}
	first := cut(via, ',')[0]
	for _, p := range cut(first, ';')[1:] {
		nv := strings.SplitN(p, "=", 2)
		if strings.EqualFold(strings.Trim(nv[0], " \t\r\n"), "branch") {
			if len(nv) == 1 {
				return "", false
			}
			return strings.Trim(nv[1], " \t\r\n"), true
		}
	}
	return "", false
}

func perms(n int) [][]int {
	var out [][]int
	var rec func(cur []int, used int)
	rec = func(cur []int, used int) {
		if len(cur) == n {
			out = append(out, append([]int(nil), cur...))
			return
		}
		for i := 0; i < n; i++ {
			if used>>i&1 == 0 {
				rec(append(cur, i), used|1<<i)
			}
		}
	}
	rec(nil, 0)
	return out
}

func checkC19(r *Run) {
	r.Assume = []string{"From-tag class signature is checked metamorphically (equal across variants sharing the tag); Call-ID and Via-branch signatures against GetCallIDSig/GetViaBrSig on the generator's strings",
		"chunking: every single cut of a subset of messages here; all schedules follow from C01"}
	methods := []string{"INVITE", "REGISTER", "OPTIONS", "FOO"}
	run := func(c *enumCtx, cs *c19Case) {
		vs := evalC19(cs)
		c.st.Evals++
		c.st.Transitions += 2
		c.st.States++
		c.st.Nontrivial++
		for _, v := range vs {
			r.Col.add(v)
		}
	}
	// orderings per subset
	ordersFor := func(sub []int) [][]int {
		k := len(sub)
		var out [][]int
		if k <= 1 {
			return [][]int{sub}
		}
		if (!r.quick() && (k <= 5 || k == 8)) || (r.quick() && k <= 4) {
			for _, p := range perms(k) {
				o := make([]int, k)
				for i, x := range p {
					o[i] = sub[x]
				}
				out = append(out, o)
			}
			return out
		}
		// rotations, reversed rotations and a set of fixed permutations
		for rot := 0; rot < k; rot++ {
			o := make([]int, k)
			ro := make([]int, k)
			for i := range sub {
				o[i] = sub[(i+rot)%k]
				ro[k-1-i] = sub[(i+rot)%k]
			}
			out = append(out, o, ro)
		}
		for s := 1; s <= 12; s++ {
			o := append([]int(nil), sub...)
			for i := range o { // deterministic shuffle
				j := (i*s*7 + s*3) % k
				o[i], o[j] = o[j], o[i]
			}
			out = append(out, o)
		}
		return out
	}
	parallelFor(r, 256, func(c *enumCtx, mask int) {
		var sub []int
		for i := 0; i < 8; i++ {
			if mask>>i&1 == 1 {
				sub = append(sub, i)
			}
		}
		for oi, ord := range ordersFor(sub) {
			for mi, meth := range methods {
				// compact forms: all 2^k masks for small subsets, a rotating selection otherwise
				var cms []int
				if len(ord) <= 3 || !r.quick() && len(ord) <= 5 {
					for cm := 0; cm < 1<<len(ord); cm++ {
						cms = append(cms, cm)
					}
				} else {
					cms = []int{0, 1<<len(ord) - 1, (oi*37 + mi*11) % (1 << len(ord)), 0x55 & (1<<len(ord) - 1)}
				}
				for _, cm := range cms {
					base := c19Case{Method: meth, Order: ord, Compact: cm, Repeat: -1, Cap: 40, Cut: -1, Var: (oi + mi + cm) % 16}
					run(c, &base)
					if (oi+mi+cm)%r.pick(5, 2) != 0 {
						continue
					}
					// fillers: one in each gap, two (first+last), changed value
					for g := 0; g <= len(ord); g++ {
						v := base
						v.Fillers = make([]int, len(ord)+1)
						v.Fillers[g] = 1 + (g+oi)%len(fillerLines)
						run(c, &v)
						v2 := v
						v2.Fillers = append([]int(nil), v.Fillers...)
						v2.Fillers[g] += 100
						v2.Fillers[(g+1)%(len(ord)+1)] = 1 + (g+3)%len(fillerLines)
						run(c, &v2)
					}
					// the request behind earlier stream data, at several start offsets (one-shot and cut in two)
					for _, k := range []int{1, 2, 4, 133, 266, 4000} {
						v := base
						v.Offs = k
						run(c, &v)
						v.Cut = 30 + k%7
						run(c, &v)
					}
					// the CSeq value names another method (known or not): a header value, the method is the request line's
					for _, om := range []string{"OPTIONS", "INVITE", "REGISTER", "FOO"} {
						if om != meth {
							v := base
							v.CSeqM = om
							run(c, &v)
						}
					}
					// later repetition of each fingerprinted header
					for hi, h := range ord {
						v := base
						v.Repeat = h
						run(c, &v)
						// repetition together with a filler (a filler keeps GetMsgSig from stopping early)
						v2 := v
						v2.Fillers = make([]int, len(ord)+1)
						v2.Fillers[(hi+oi)%(len(ord)+1)] = 1 + (hi+cm)%len(fillerLines)
						run(c, &v2)
					}
					// capacities 0..N+1 and built-in
					n := len(ord)
					for cp := -1; cp <= n+1; cp++ {
						v := base
						v.Cap = cp
						run(c, &v)
						if cp >= 0 && cp < n {
							v.Repeat = ord[0]
							v.Fillers = make([]int, n+1)
							v.Fillers[0] = 2
							run(c, &v)
						}
					}
				}
			}
		}
	})
	// every single cut on a few messages; replies
	for _, meth := range methods[:2] {
		cs := c19Case{Method: meth, Order: []int{6, 3, 5, 0, 2, 1, 4, 7}, Compact: 0x29, Fillers: []int{1, 0, 3, 0, 0, 102, 0, 0, 5}, Repeat: 6, Cap: 40, Cut: -1}
		msg, _, _, _, _ := cs.render()
		c0 := &enumCtx{r: r, st: newStats()}
		for cut := 1; cut < len(msg); cut++ {
			v := cs
			v.Cut = cut
			run(c0, &v)
		}
		r.St.merge(c0.st)
		r.St.sample(fmt.Sprintf("%q", msg))
	}
	// object history: the same object and header array saw every prefix of an earlier message, then Reset / Init
	var hist []c19Case
	for mi, meth := range methods {
		for _, ord := range [][]int{{6, 3, 5, 0, 2, 1, 4, 7}, {3, 6, 0}, {0, 2}, {6}} {
			for _, cp := range []int{-1, 40, len(ord), 2} {
				for pc := 1; pc <= len(c19PrevMsg); pc++ {
					for _, op := range []string{"Reset", "Init"} {
						hist = append(hist, c19Case{Method: meth, Order: ord, Compact: 0x29 & (1<<len(ord) - 1), Repeat: -1, Cap: cp, Cut: -1, Var: mi, PrevCut: pc, PrevOp: op})
					}
				}
			}
		}
	}
	parallelFor(r, len(hist), func(c *enumCtx, i int) { run(c, &hist[i]) })
	defer func() {
		c19Out.Range(func(k, v any) bool {
			r.St.Outcomes["GetMsgSig:"+k.(string)] += atomic.LoadInt64(v.(*int64))
			return true
		})
	}()
	for _, ord := range [][]int{{0, 1, 2, 3, 4, 5, 6, 7}, {3, 5}, {}} {
		c0 := &enumCtx{r: r, st: newStats()}
		run(c0, &c19Case{Method: "INVITE", Order: ord, Reply: true, Repeat: -1, Cap: -1, Cut: -1})
		run(c0, &c19Case{Method: "INVITE", Order: ord, Reply: true, Repeat: -1, Cap: 0, Cut: -1})
		for _, code := range []string{"000", "100", "199", "404", "699", "999"} {
			run(c0, &c19Case{Method: "INVITE", Order: ord, Reply: true, Code: code, Repeat: -1, Cap: -1, Cut: -1})
		}
		r.St.merge(c0.st)
	}
}

func init() {
	replayers["C19"] = func(prop string, c *Case) []*Violation {
		var cs c19Case
		remarshal(c.Extra["case"], &cs)
		return evalC19(&cs)
	}
	register("C19", &checkDef{fn: checkC19,
		rule:        "E4: generated requests (4 methods x all 256 subsets of the 8 fingerprinted headers x orderings x long/compact forms) with variants (fillers in every gap, changed filler values, later repetition of each fingerprinted header, every header capacity 0..N+1, single cuts) parsed by the real parser and signed by GetMsgSig; oracle: signature by construction + equality with the base variant; replies, truncation, length and text rendering rules; every case is a distinct non-trivial message",
		quickBudget: 120 * time.Second, thorBudget: 20 * time.Minute})
}
