package main

import (
	"fmt"
	"strings"
	"time"

	"github.com/intuitivelabs/sipsp"
)

type c06Case struct {
	Head  int    // header-block shape
	N     int64  // declared Content-Length (ignored for shape 0)
	M     int    // available body bytes
	Flags uint8  // parse flags
	Blank string // blank-line form
	Offs  int    // start offset
	Cut   int    // 0: one call; > 0: first call sees buf[:Cut] (without no-more-data), the second the whole buffer
	Tail  string `json:",omitempty"` // bytes that follow the M body bytes in the buffer (only used with a Content-Length and M == N)
}

var c06Heads = []string{
	"",                                     // no Content-Length
	"Content-Length: %d\r\n",               // long form
	"l: %d\r\n",                            // compact
	"Content-Length: %d\r\nX-After: 1\r\n", // before other headers
	"X-Before: 1\r\nContent-Length:\r\n %d \r\n",
	"Content-Length: %[1]d\r\nContent-Length: %[1]d\r\n", // repeated with the same value
	"l: %[1]d\r\nX-Mid: 1\r\nContent-Length: %[1]d\r\nl:%[1]d\r\n",
	"Content-Length: %d\r\nExpires: 31536000\r\n",          // another numeric header, above the Content-Length limit, last in the block
	"Subject: \r\nContent-Length: %d\r\nSupported:\t \r\n", // generic headers with an empty value and white space after the colon
	"l: %d\r\nAccept:\r\n \r\nX-E:  \r\n",                  // ... also folded, also as the last header
}

func (cs *c06Case) render() (buf []byte, bodyStart int, hasCLen bool) {
	var sb strings.Builder
	sb.WriteString(strings.Repeat("#", cs.Offs))
	sb.WriteString("INVITE sip:a@b SIP/2.0\r\nFrom: <sip:a@b>;tag=1\r\nCall-ID: c1\r\n")
	if cs.Head > 0 {
		fmt.Fprintf(&sb, c06Heads[cs.Head], cs.N)
		hasCLen = true
	}
	sb.WriteString(cs.Blank)
	bodyStart = sb.Len()
	for i := 0; i < cs.M; i++ {
		if i < 2 && cs.N%2 == 1 && cs.Blank != "\r" {
			sb.WriteByte("\n\r"[i]) // bodies of odd declared length begin with LF CR (not behind a lone-CR empty line)
			continue
		}
		sb.WriteByte("abcdefghijklmnop"[i%16])
	}
	sb.WriteString(cs.Tail)
	return []byte(sb.String()), bodyStart, hasCLen
}

// evalC06 compares one framing case with the reference table of the statement.
func evalC06(cs *c06Case) (vs []*Violation, outcome string) {
	buf, bs, hasCLen := cs.render()
	add := func(rule, class, detail string) {
		c := mkCase("C06", "ParseSIPMsg", &Cfg{Flags: uint(cs.Flags), Offs: cs.Offs, HdrCap: -1, ValCap: -1}, buf, nil)
		c.Extra = map[string]any{"case": *cs} // a copy: callers re-use their case variables
		vs = append(vs, &Violation{Property: "C06", Site: "ParseSIPMsg", Rule: rule, Class: class, Detail: detail, Case: c})
	}
	defer recoverTo3(add)
	var m sipsp.PSIPMsg
	m.Init(nil, nil, nil)
	var n int
	var e sipsp.ErrorHdr
	if cs.Cut > 0 {
		n, e = sipsp.ParseSIPMsg(buf[:cs.Cut], cs.Offs, &m, cs.Flags&^sipsp.SIPMsgNoMoreDataF)
		if e != sipsp.ErrHdrMoreBytes {
			return nil, "prefix-definitive" // e.g. body = rest of the (shorter) buffer: nothing to resume
		}
		n, e = sipsp.ParseSIPMsg(buf, n, &m, cs.Flags)
	} else {
		n, e = sipsp.ParseSIPMsg(buf, cs.Offs, &m, cs.Flags)
	}
	skip, req, nomore := cs.Flags&sipsp.SIPMsgSkipBodyF != 0, cs.Flags&sipsp.SIPMsgCLenReqF != 0, cs.Flags&sipsp.SIPMsgNoMoreDataF != 0
	cl := fmt.Sprintf("flags=%d/clen=%v", cs.Flags, hasCLen)
	if cs.Cut > 0 {
		cl += "/resumed"
	}
	if hasCLen && (cs.N > 1<<24 || len(fmt.Sprint(cs.N)) > 9) {
		outcome = "clen-rejected"
		if e == 0 || e == sipsp.ErrHdrMoreBytes {
			add("out-of-range-content-length-rejected", cl, fmt.Sprintf("verdict %v", e))
		}
		return
	}
	wantErr := sipsp.ErrHdrOk
	wantOffs := bs
	wantBody := 0
	switch {
	case skip:
		outcome = "skip-body"
		if req && !hasCLen {
			wantErr = sipsp.ErrHdrNoCLen
			outcome = "no-clen-reported"
		}
	case hasCLen:
		if int64(cs.M) >= cs.N {
			wantBody = int(cs.N)
			wantOffs = bs + int(cs.N)
			outcome = "exact-body"
		} else if nomore {
			wantBody = cs.M
			wantOffs = len(buf)
			outcome = "truncated-body"
		} else {
			wantErr = sipsp.ErrHdrMoreBytes
			outcome = "more-bytes"
		}
	case req:
		outcome = "clen-required-empty-body"
	default:
		wantBody = cs.M
		wantOffs = len(buf)
		outcome = "rest-of-buffer"
	}
	if e != wantErr {
		add("verdict-per-framing-table", cl+"/"+outcome, fmt.Sprintf("verdict %v want %v (n=%d m=%d)", e, wantErr, cs.N, cs.M))
		return
	}
	if wantErr == sipsp.ErrHdrMoreBytes {
		return
	}
	if n != wantOffs {
		add("offset-per-framing-table", cl+"/"+outcome, fmt.Sprintf("offset %d want %d (body start %d n=%d m=%d)", n, wantOffs, bs, cs.N, cs.M))
	}
	if wantErr == 0 {
		if int(m.Body.Offs) != bs || int(m.Body.Len) != wantBody {
			add("body-extent", cl+"/"+outcome, fmt.Sprintf("Body=%v want {%d,%d}", m.Body, bs, wantBody))
		}
		if string(m.RawMsg) != string(buf[cs.Offs:wantOffs]) {
			add("raw-message-is-start-to-offset", cl+"/"+outcome, fmt.Sprintf("RawMsg len %d want %d", len(m.RawMsg), wantOffs-cs.Offs))
		}
		if !m.Parsed() {
			add("parsed-indicator", cl, "Parsed()==false on success")
		}
	} else if wantErr == sipsp.ErrHdrNoCLen {
		// "reported as such": the verdict comes with the frame of what was parsed (start line through blank line)
		if string(m.RawMsg) != string(buf[cs.Offs:wantOffs]) {
			add("raw-message-is-start-to-offset", cl+"/"+outcome, fmt.Sprintf("RawMsg len %d want %d", len(m.RawMsg), wantOffs-cs.Offs))
		}
		if int(m.Body.Offs) != bs || m.Body.Len != 0 {
			add("body-extent", cl+"/"+outcome, fmt.Sprintf("Body=%v want {%d,0}", m.Body, bs))
		}
	}
	return
}

// ---- pipelines ---------------------------------------------------------------

var pipeMenu = []string{
	"INVITE sip:a@b SIP/2.0\r\nFrom: <sip:a@b>;tag=1\r\nTo: <sip:c@d>\r\nCall-ID: c1\r\nCSeq: 1 INVITE\r\nContact: <sip:x@y>;expires=5, <sip:z@w>\r\nContent-Length: 4\r\n\r\nBODY",
	"SIP/2.0 200 OK\r\nf: \"Q\" <sip:q@r>;tag=zz\r\nt: <sip:q@r>;tag=b\r\ni: 99\r\nCSeq: 7 REGISTER\r\nm: *\r\nExpires: 0\r\nl: 0\r\n\r\n",
	"REGISTER sip:r SIP/2.0\r\nP-Asserted-Identity: <sip:p@q>,<tel:1>\r\nCall-ID: c3\r\nl:1\r\n\r\nX",
	"OPTIONS sip:o SIP/2.0\r\nX-Only: generic\r\nContent-Length: 0\r\n\r\n",
	"BYE sip:b SIP/2.0\r\nCall-ID: nolen\r\nFrom: <sip:n@l>\r\n\r\n", // no Content-Length: only valid in pipelines under CLen-required
	"NOTIFY sip:n SIP/2.0\r\nH1: 1\r\nH2: 2\r\nH3: 3\r\nH4: 4\r\nH5: 5\r\nH6: 6\r\nH7: 7\r\nH8: 8\r\nH9: 9\r\nH10: 10\r\nH11: 11\r\nContact: <sip:l@m>\r\nl: 2\r\n\r\nab",
	"SIP/2.0 183 Session Progress\nv: SIP/2.0/UDP h;branch=z9hG4bKx\nCall-ID: lf@only\nContent-Length:\n 007\nCSeq: 2 INVITE\n\nv=0\r\n\r\n",
	"SUBSCRIBE sip:s@t SIP/2.0\r\nExpires: 31536000\r\nCSeq: 4294967295 SUBSCRIBE\r\nContact: <sip:s@u>;expires=4294967295;q=1.000\r\nContent-Length: 00000005\r\n\r\n12345", // numbers at their limits
	"MESSAGE sip:m@n SIP/2.0\rCall-ID: cr@only\rFrom: sip:u@v;tag=t\rl: 3\r\r\r\n\r",                                                                                         // lone-CR line ends, body is CR LF CR
}

type c06Pipe struct {
	Seq   []int
	Reset string // "reset" | "init" | "new"
	Flags uint8
	Cut   int // > 0: the stream arrives in two pieces, buf[:Cut] then the rest; a suspended message is resumed
}

func evalC06Pipe(p *c06Pipe) (vs []*Violation) {
	var sb strings.Builder
	var starts []int
	for _, i := range p.Seq {
		starts = append(starts, sb.Len())
		sb.WriteString(pipeMenu[i])
	}
	buf := []byte(sb.String())
	add := func(rule, class, detail string) {
		c := mkCase("C06pipe", "ParseSIPMsg", &Cfg{Flags: uint(p.Flags), HdrCap: -1, ValCap: -1}, buf, nil)
		c.Extra = map[string]any{"pipe": *p}
		vs = append(vs, &Violation{Property: "C06", Site: "ParseSIPMsg", Rule: rule, Class: class, Detail: detail, Case: c})
	}
	defer recoverTo3(add)
	m := new(sipsp.PSIPMsg)
	m.Init(nil, nil, nil)
	offs := 0
	avail := len(buf)
	if p.Cut > 0 && p.Cut < len(buf) {
		avail = p.Cut
	}
	for k, mi := range p.Seq {
		if k > 0 {
			switch p.Reset {
			case "reset":
				m.Reset()
			case "init":
				m.Init(nil, nil, nil)
			default:
				m = new(sipsp.PSIPMsg)
				m.Init(nil, nil, nil)
			}
		}
		if offs != starts[k] {
			add("offset-is-first-byte-after-message", fmt.Sprintf("msg%d", mi), fmt.Sprintf("message %d starts at %d but previous parse returned %d", k, starts[k], offs))
			return
		}
		// the pipeline buffer may hold further messages: parse with the whole buffer
		n, e := 0, sipsp.ErrHdrOk
		if avail < len(buf) && avail <= offs {
			avail = len(buf) // nothing of this message has arrived yet
		}
		n, e = sipsp.ParseSIPMsg(buf[:avail], offs, m, p.Flags)
		if e == sipsp.ErrHdrMoreBytes && avail < len(buf) {
			avail = len(buf)
			n, e = sipsp.ParseSIPMsg(buf, n, m, p.Flags)
		}
		// alone: same text at the same offset (junk before it, nothing after it), new object
		alone := append([]byte(strings.Repeat("#", starts[k])), pipeMenu[mi]...)
		am := new(sipsp.PSIPMsg)
		am.Init(nil, nil, nil)
		an, ae := sipsp.ParseSIPMsg(alone, starts[k], am, p.Flags)
		if n != an || e != ae {
			add("pipelined-equals-alone:verdict", fmt.Sprintf("msg%d/%s", mi, p.Reset), fmt.Sprintf("message %d: pipelined (%d,%v) alone (%d,%v)", k, n, e, an, ae))
			return
		}
		if e != 0 && e != sipsp.ErrHdrNoCLen {
			return
		}
		po, ao := msgDrv.obs(m, buf), msgDrv.obs(am, alone)
		if po != ao {
			add("pipelined-equals-alone:values", diffField(ao, po)+"/"+p.Reset, fmt.Sprintf("message %d (menu %d): %s", k, mi, firstDiff(ao, po)))
		}
		if e != 0 {
			return
		}
		offs = n
	}
	return
}

func checkC06(r *Run) {
	r.Assume = []string{"reference = the framing table of the statement (mc/c06.go evalC06)", "pipelines are parsed with one reused object (Reset or Init in between) and with a new object; messages without Content-Length take part only under CLen-required"}
	ns := []int64{0, 1, 2, 3, 4, 5, 6, 7, 8, 9, 10, 11, 12, 255, 256, 65000, 65535, 65536, 65537, 131072, 1<<24 - 1, 1 << 24, 1<<24 + 1, 99999999, 100000000, 1000000000}
	maxM := r.pick(14, 40)
	if r.Tier != "quick" {
		for n := int64(13); n <= 40; n++ {
			ns = append(ns, n)
		}
	}
	blanks := []string{"\r\n", "\n", "\r"}
	var cases []c06Case
	for h := range c06Heads {
		for _, n := range ns {
			if h == 0 && n != 0 {
				continue
			}
			for m := 0; m <= maxM; m++ {
				for f := uint8(0); f < 8; f++ {
					for bi, b := range blanks {
						for _, o := range []int{0, 3} {
							if o == 3 && (bi != 0 || m%3 != 0) {
								continue
							}
							cases = append(cases, c06Case{Head: h, N: n, M: m, Flags: f, Blank: b, Offs: o})
						}
					}
				}
			}
		}
		// long bodies: one byte less than, exactly, and one byte more than declared; the largest one ends at 65535
		if h > 0 {
			_, bs0, _ := (&c06Case{Head: h, N: 60000, Blank: "\r\n"}).render()
			for _, n := range []int64{41, 255, 256, 257, 1000, 4096, 60000, int64(65535 - bs0)} {
				for _, m := range []int{int(n) - 1, int(n), int(n) + 1} {
					if bs0+m > 65535 {
						continue
					}
					for f := uint8(0); f < 8; f++ {
						cases = append(cases, c06Case{Head: h, N: n, M: m, Flags: f, Blank: "\r\n"})
					}
				}
			}
		}
	}
	// what follows the message in the buffer (a keep-alive CRLF CRLF, the next message, binary junk) never moves the
	// returned offset: exact bodies of every head shape with a tail
	for h := 1; h < len(c06Heads); h++ {
		for _, n := range []int64{0, 1, 3, 12} {
			for f := uint8(0); f < 8; f++ {
				for _, tail := range []string{"\r\n\r\n", "\r\n", "\n\n", "\r\n\r\nINVITE sip:x SIP/2.0\r\n", "SIP/2.0 200 OK\r\nl: 0\r\n\r\n", "\x00\x00\x00\x00", " \t"} {
					for _, b := range blanks[:2] {
						cases = append(cases, c06Case{Head: h, N: n, M: int(n), Flags: f, Blank: b, Tail: tail})
					}
				}
			}
		}
	}
	// resumed framing: the same cases delivered in two pieces, cut inside the body / around the blank line
	// (thorough: every cut of the short cases)
	one := len(cases)
	for i := 0; i < one; i++ {
		cs := cases[i]
		if cs.Blank == "\r" && cs.M == 0 {
			continue
		}
		buf, bs, _ := cs.render()
		lo := bs - 24 // covers the last header line of every head shape
		if r.Tier != "quick" && len(buf) < 200 {
			lo = cs.Offs + 1
		}
		step := 1
		if len(buf)-lo > 64 {
			step = (len(buf) - lo) / 8
		}
		for c := lo; c < len(buf); c += step {
			cc := cs
			cc.Cut = c
			cases = append(cases, cc)
		}
		if step > 1 {
			cc := cs
			cc.Cut = len(buf) - 1
			cases = append(cases, cc)
		}
		// a last call that brings no new byte (only the no-more-data indication, where the flags have it)
		cc := cs
		cc.Cut = len(buf)
		cases = append(cases, cc)
	}
	parallelFor(r, len(cases), func(c *enumCtx, i int) {
		cs := cases[i]
		if cs.Blank == "\r" && cs.M == 0 {
			return // lone CR at the very end of the buffer cannot be told from CRLF yet: more-bytes by design
		}
		vs, out := evalC06(&cs)
		c.st.Evals++
		c.st.Transitions++
		c.st.States++
		c.st.outcome(out)
		if out != "more-bytes" && out != "prefix-definitive" {
			c.st.Nontrivial++
		}
		for _, v := range vs {
			r.Col.add(v)
		}
	})
	// pipelines: all sequences of length 1..K
	K := r.pick(3, 5)
	KC := r.pick(3, 4) // sequences up to this length are also delivered in two pieces at every cut
	var seqs [][]int
	var rec func(cur []int)
	rec = func(cur []int) {
		if len(cur) > 0 {
			seqs = append(seqs, append([]int(nil), cur...))
		}
		if len(cur) == K {
			return
		}
		for i := range pipeMenu {
			rec(append(cur, i))
		}
	}
	rec(nil)
	parallelFor(r, len(seqs), func(c *enumCtx, i int) {
		for _, f := range []uint8{0, sipsp.SIPMsgCLenReqF} {
			ok := true
			for _, mi := range seqs[i] {
				if mi == 4 && f == 0 {
					ok = false
				}
			}
			if !ok {
				continue
			}
			total := 0
			for _, mi := range seqs[i] {
				total += len(pipeMenu[mi])
			}
			for _, rs := range []string{"reset", "init", "new"} {
				// cut 0: the whole stream is there; cut c: it arrives as [0,c) + the rest
				if len(seqs[i]) > KC {
					total = 1 // longest sequences: whole stream only
				}
				for cut := 0; cut < total; cut++ {
					vs := evalC06Pipe(&c06Pipe{Seq: seqs[i], Reset: rs, Flags: f, Cut: cut})
					c.st.Evals++
					c.st.Transitions += int64(2 * len(seqs[i]))
					c.st.States++
					if len(seqs[i]) > 1 {
						c.st.Nontrivial++
					}
					for _, v := range vs {
						r.Col.add(v)
					}
				}
			}
		}
	})
	b, _, _ := (&c06Case{Head: 2, N: 3, M: 5, Blank: "\r\n"}).render()
	r.St.sample(fmt.Sprintf("%q", b))
	r.Bounds["framing_cases"] = len(cases)
	r.Bounds["pipeline_sequences"] = len(seqs)
	r.Bounds["pipeline_max_len"] = K
	r.Bounds["pipeline_max_len_with_every_cut"] = KC
}

func init() {
	replayers["C06"] = func(prop string, c *Case) []*Violation {
		var cs c06Case
		remarshal(c.Extra["case"], &cs)
		vs, _ := evalC06(&cs)
		return vs
	}
	replayers["C06pipe"] = func(prop string, c *Case) []*Violation {
		var p c06Pipe
		remarshal(c.Extra["pipe"], &p)
		return evalC06Pipe(&p)
	}
	register("C06", &checkDef{fn: checkC06,
		rule:        "E4: product header-block shape x declared length x available body bytes x 8 flag values x blank-line form x start offset against the framing table of the statement; E2-style pipelines: every sequence of 1..K menu messages back to back, parsed from each returned offset with Reset / Init / a new object, each compared with the message parsed alone at the same offset; non-trivial = framing case with a definitive verdict / pipeline of >= 2 messages",
		quickBudget: 180 * time.Second, thorBudget: 25 * time.Minute})
}
