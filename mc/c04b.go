package main

// C04: non-parsing entry points (exhaustive enumeration) and isolation (interleavings).

import (
	"bytes"
	"fmt"
	"os"
	"os/exec"
	"strings"

	"github.com/intuitivelabs/sipsp"
)

// apiCall runs a named exported function on a byte string (and optional extra args) under recover.
// It returns a panic text ("" if none) and a rendering of the result.
type apiFn func(in []byte, extra map[string]any) string

func guarded(f func() string) (res string, pmsg string) {
	defer func() {
		if r := recover(); r != nil {
			pmsg = fmt.Sprint(r)
		}
	}()
	return f(), ""
}

func exInt(extra map[string]any, k string) int {
	if extra == nil {
		return 0
	}
	return int(anyUint(extra[k]))
}

var apiFuncs = map[string]apiFn{
	"GetHdrType":  func(in []byte, _ map[string]any) string { return fmt.Sprint(sipsp.GetHdrType(in)) },
	"GetMethodNo": func(in []byte, _ map[string]any) string { return fmt.Sprint(sipsp.GetMethodNo(in)) },
	"ParseURI": func(in []byte, _ map[string]any) string {
		var u sipsp.PsipURI
		err, n := sipsp.ParseURI(in, &u)
		if n < 0 || n > len(in) {
			return fmt.Sprintf("BAD offset %d outside [0,%d]", n, len(in))
		}
		if err == 0 {
			for _, f := range []sipsp.PField{u.Scheme, u.User, u.Pass, u.Host, u.Port, u.Params, u.Headers} {
				if int(f.Offs)+int(f.Len) > len(in) {
					return fmt.Sprintf("BAD field %v outside input", f)
				}
			}
			l, s := u.Long(), u.Short()
			_ = u.Flat(in)
			_, _ = l.Get(in), s.Get(in)
			u.Truncate()
		}
		return fmt.Sprint(err, n)
	},
	"URIParseCmp": func(in []byte, ex map[string]any) string {
		other := []byte(ex["other"].(string))
		var r1, r2 sipsp.PsipURI
		ok, err, w := sipsp.URIParseCmp(in, other, sipsp.URICmpFlags(exInt(ex, "flags")), &r1, &r2)
		ok2, err2, w2 := sipsp.URIRawCmp(other, in, sipsp.URICmpFlags(exInt(ex, "flags")))
		// the same result structures used again without Reset (first for a longer URI): no panic, every reported field
		// can be dereferenced against the URI it belongs to
		long := []byte("sips:user:password@some.long.host.example.org:5061;transport=tls;lr?h1=v1&h2=v2")
		sipsp.URIParseCmp(long, long, 0, &r1, &r2)
		ok3, err3, _ := sipsp.URIParseCmp(in, other, sipsp.URICmpFlags(exInt(ex, "flags")), &r1, &r2)
		if err3 == 0 {
			for i, u := range []*sipsp.PsipURI{&r1, &r2} {
				b := [][]byte{in, other}[i]
				for _, f := range []sipsp.PField{u.Scheme, u.User, u.Pass, u.Host, u.Port, u.Params, u.Headers} {
					if int(f.Offs)+int(f.Len) > len(b) {
						return fmt.Sprintf("BAD reused-result field %v of r%d outside its URI (len %d)", f, i+1, len(b))
					}
				}
				l, sh := u.Long(), u.Short()
				_ = u.Flat(b)
				_, _ = l.Get(b), sh.Get(b)
			}
		}
		if ok3 != ok || err3 != err {
			return fmt.Sprintf("BAD reused-result verdict (%v,%v) differs from (%v,%v) with new structures", ok3, err3, ok, err)
		}
		return fmt.Sprint(ok, err, w, ok2, err2, w2)
	},
	"URICmpPair": func(in []byte, ex map[string]any) string {
		// two URIs of different lengths, each in its own exact-capacity buffer, through every comparison entry point
		b1 := append(make([]byte, 0, len(in)), in...)
		o := ex["other"].(string)
		b2 := append(make([]byte, 0, len(o)), o...)
		fl := sipsp.URICmpFlags(exInt(ex, "flags"))
		var u1, u2 sipsp.PsipURI
		e1, _ := sipsp.ParseURI(b1, &u1)
		e2, _ := sipsp.ParseURI(b2, &u2)
		out := ""
		if e1 == 0 && e2 == 0 {
			out = fmt.Sprint(sipsp.URICmpShort(&u1, b1, &u2, b2, fl), sipsp.URICmp(&u1, b1, &u2, b2, fl),
				sipsp.URICmpShort(&u2, b2, &u1, b1, fl), sipsp.URICmp(&u2, b2, &u1, b1, fl))
		}
		ok, err, w := sipsp.URIRawCmp(b1, b2, fl)
		var r1, r2 sipsp.PsipURI
		ok2, err2, w2 := sipsp.URIParseCmp(b2, b1, fl, &r1, &r2)
		return out + fmt.Sprint(ok, err, w, ok2, err2, w2)
	},
	"URIParamsEq": func(in []byte, ex map[string]any) string {
		other := []byte(ex["other"].(string))
		ok, err := sipsp.URIParamsEq(in, 0, other, 0)
		ok2, err2 := sipsp.URIParamsEq(other, 0, in, 0)
		return fmt.Sprint(ok, err, ok2, err2)
	},
	"URIHdrsEq": func(in []byte, ex map[string]any) string {
		other := []byte(ex["other"].(string))
		ok, err := sipsp.URIHdrsEq(in, 0, other, 0)
		ok2, err2 := sipsp.URIHdrsEq(other, 0, in, 0)
		return fmt.Sprint(ok, err, ok2, err2)
	},
	"AdjustOffs": func(in []byte, ex map[string]any) string {
		var u sipsp.PsipURI
		if err, _ := sipsp.ParseURI(in, &u); err != 0 {
			return "reject"
		}
		offs, ln := exInt(ex, "offs"), exInt(ex, "len")
		ok := u.AdjustOffs(sipsp.PField{Offs: sipsp.OffsT(offs), Len: sipsp.OffsT(ln)})
		if ok {
			// every accessor on the relocated URI, against a buffer that holds the text at the new place; then moved
			// once more (back to 3) and truncated
			tb := make([]byte, offs+ln)
			copy(tb[offs:], in)
			for round := 0; round < 3; round++ {
				for _, f := range []sipsp.PField{u.Scheme, u.User, u.Pass, u.Host, u.Port, u.Params, u.Headers, u.Long(), u.Short()} {
					if int(f.Offs)+int(f.Len) > len(tb) {
						return fmt.Sprintf("BAD relocated field %v outside the target buffer (len %d), round %d", f, len(tb), round)
					}
					_ = f.Get(tb)
				}
				_ = u.Flat(tb)
				switch round {
				case 0:
					if !u.AdjustOffs(sipsp.PField{Offs: 3, Len: sipsp.OffsT(len(in))}) {
						return "BAD second relocation refused"
					}
					tb = append([]byte("###"), in...)
				case 1:
					u.Truncate()
				}
			}
		}
		return fmt.Sprint(ok)
	},
	"IPdst": func(in []byte, _ map[string]any) string {
		// every destination length 0..20 (exact capacity): a destination too short for the address is refused or left
		// alone, never indexed beyond its length
		out := ""
		for n := 0; n <= 20; n++ {
			d := make([]byte, n)
			ok4, _, _ := sipsp.IP4Prefix(in, d)
			c4, _, _ := sipsp.ContainsIP4(in, make([]byte, n))
			ok6, _, _ := sipsp.IP6Prefix(in, make([]byte, n))
			c6, o6, l6 := sipsp.ContainsIP6(in, make([]byte, n))
			if c6 && (o6 < 0 || o6+l6 > len(in)) {
				return "BAD ContainsIP6 span"
			}
			if n == 16 {
				out = fmt.Sprint(ok4, c4, ok6, c6)
			}
		}
		return out
	},
	"IPsig": func(in []byte, _ map[string]any) string {
		var d4 [4]byte
		var d16 [16]byte
		var d3 [3]byte
		ok, n, e := sipsp.IP4Prefix(in, d4[:])
		if n < 0 || n > len(in) {
			return "BAD IP4Prefix offset"
		}
		sipsp.IP4Prefix(in, nil)
		sipsp.IP4Prefix(in, d3[:])
		c4, o4, l4 := sipsp.ContainsIP4(in, d4[:])
		if c4 && (o4 < 0 || o4+l4 > len(in)) {
			return "BAD ContainsIP4 span"
		}
		ok6, n6, e6 := sipsp.IP6Prefix(in, d16[:])
		if n6 < 0 || n6 > len(in) {
			return "BAD IP6Prefix offset"
		}
		sipsp.IP6Prefix(in, nil)
		sipsp.IP6Prefix(in, d3[:])
		c6, o6, l6 := sipsp.ContainsIP6(in, d16[:])
		if c6 && (o6 < 0 || o6+l6 > len(in)) {
			return "BAD ContainsIP6 span"
		}
		s, sl := sipsp.GetCallIDSig(in)
		v, vl := sipsp.GetViaBrSig(in)
		return fmt.Sprint(ok, n, e, c4, o4, l4, ok6, n6, e6, c6, o6, l6, s, sl, v, vl)
	},
}

func apiCheck(r *Run, c *enumCtx, fn string, in []byte, extra map[string]any) {
	res, pm := guarded(func() string { return apiFuncs[fn](in, extra) })
	c.st.Transitions++
	c.st.Evals++
	if pm != "" {
		cs := mkCase("api", fn, nil, in, nil)
		cs.Extra = extra
		r.Col.add(&Violation{Property: "C04", Site: fn, Rule: "no-panic", Class: "panic:" + panicClass(pm), Detail: "panic: " + pm, Case: cs})
		c.st.outcome(fn + ":panic")
		return
	}
	if strings.HasPrefix(res, "BAD") {
		cs := mkCase("api", fn, nil, in, nil)
		cs.Extra = extra
		r.Col.add(&Violation{Property: "C04", Site: fn, Rule: "offset-in-buffer", Class: strings.Fields(res)[1], Detail: res, Case: cs})
	}
	if len(c.st.Outcomes) < 200 {
		c.st.outcome(fn + ":" + res)
	} else {
		c.st.Outcomes[fn+":other"]++
	}
	if !strings.HasPrefix(res, "14") && res != "15" && !strings.HasPrefix(res, "reject") && !strings.HasPrefix(res, "false") {
		c.st.Nontrivial++
	}
}

func init() {
	replayers["api"] = func(prop string, c *Case) []*Violation {
		res, pm := guarded(func() string { return apiFuncs[c.Driver](c.input(), c.Extra) })
		if pm != "" {
			return []*Violation{{Property: prop, Site: c.Driver, Rule: "no-panic", Class: "panic:" + panicClass(pm), Detail: "panic: " + pm, Case: c}}
		}
		if strings.HasPrefix(res, "BAD") {
			return []*Violation{{Property: prop, Site: c.Driver, Rule: "offset-in-buffer", Class: strings.Fields(res)[1], Detail: res, Case: c}}
		}
		return nil
	}
}

func c04NonParsing(r *Run) {
	a256 := all256()
	// lookups: every name of length 0..3 over all 256 byte values
	enumStrings(r, a256, 0, r.pick(3, 3), nil, func(c *enumCtx, s []byte) {
		apiCheck(r, c, "GetHdrType", s, nil)
		apiCheck(r, c, "GetMethodNo", s, nil)
	})
	c0 := &enumCtx{r: r, st: newStats()}
	for m := 0; m < 256; m++ {
		if _, pm := guarded(func() string { return sipsp.SIPMethod(m).String() + string(sipsp.SIPMethod(m).Name()) }); pm != "" {
			r.Col.add(&Violation{Property: "C04", Site: "SIPMethod.Name", Rule: "no-panic", Class: "panic", Detail: pm, Case: mkCase("api-int", "SIPMethod.Name", nil, []byte{byte(m)}, nil)})
		}
		c0.st.Transitions++
	}
	for i := 0; i < 65536; i++ {
		if _, pm := guarded(func() string {
			var hf sipsp.HdrFlags
			hf.Set(sipsp.HdrT(i))
			hf.Clear(sipsp.HdrT(i >> 3))
			// (out-of-range types make GetHdrSigId log a BUG line each: only the defined types are enumerated)
			id, e := sipsp.GetHdrSigId(sipsp.Hdr{Type: sipsp.HdrT(i % (int(sipsp.HdrOther) + 1)), Name: sipsp.PField{Offs: 1, Len: sipsp.OffsT(i % 3)}})
			return sipsp.HdrT(i).String() + sipsp.URIScheme(int8(i)).String() + fmt.Sprint(sipsp.ErrorHdr(i).ErrorConv(), hf.Test(sipsp.HdrT(i)), hf.Any(sipsp.HdrT(i), sipsp.HdrT(i>>8)), hf.AllSet(sipsp.HdrT(i)), id, e)
		}); pm != "" {
			r.Col.add(&Violation{Property: "C04", Site: "String/ErrorConv", Rule: "no-panic", Class: "panic", Detail: pm, Case: mkCase("api-int", "String", nil, []byte{byte(i), byte(i >> 8)}, nil)})
		}
		c0.st.Transitions++
	}
	for e := sipsp.ErrHdrOk; e <= sipsp.ErrHdrTooManyVals; e++ {
		_ = e.Error()
	}
	r.St.merge(c0.st)
	// URIs: all strings <= L after each scheme, hostile + delimiter alphabet
	usig := append([]byte("a1:@;?&=[]."), 0x00, 0xff, ' ', '%')
	for _, sch := range []string{"sip:", "sips:", "tel:", ""} {
		enumStrings(r, usig, 0, r.pick(4, 5), []byte(sch), func(c *enumCtx, s []byte) {
			apiCheck(r, c, "ParseURI", s, nil)
			apiCheck(r, c, "URIParseCmp", s, map[string]any{"other": "sip:a@h:5;p=1?x=2", "flags": 0})
			if len(s) <= len(sch)+3 {
				for span := 0; span <= len(s)+2; span++ {
					apiCheck(r, c, "AdjustOffs", s, map[string]any{"offs": 7, "len": span})
				}
			}
		})
	}
	// pairs of well-formed URIs whose components differ in length (a field of one URI lies beyond the end of the other
	// URI's buffer), under every combination of skip flags
	cu := c04CmpURIs()
	parallelFor(r, len(cu), func(c *enumCtx, i int) {
		for j := range cu {
			for fl := 0; fl < 64; fl++ {
				if fl != 0 && fl != 63 && fl&(fl-1) != 0 && (i+j+fl)%8 != 0 {
					continue // every single flag, none, all; other combinations on 1/8 of the pairs
				}
				apiCheck(r, c, "URICmpPair", []byte(cu[i]), map[string]any{"other": cu[j], "flags": fl})
			}
		}
	})
	// relocation of well-formed URIs to near and far positions, then every accessor
	ru := append(c04CmpURIs(), "tel:+358-555-1234567;postd=pp22", "tel:1", "tel:+1-555;x=y?h=1", "TEL:7042", "sip:h", "sips:[::1]:5061", "sip:u:p@h")
	parallelFor(r, len(ru), func(c *enumCtx, i int) {
		l := len(ru[i])
		for _, tg := range []int{0, 1, 4, 35, 300, 4096, 65535 - l - 2, 65535 - l} {
			for _, span := range []int{l, l + 2} {
				if tg+span > 65535 {
					continue
				}
				apiCheck(r, c, "AdjustOffs", []byte(ru[i]), map[string]any{"offs": tg, "len": span})
			}
		}
	})
	// parameter / header list comparisons
	psig := append([]byte("a=;&\" \r\n?,"), 0x00, 0xff)
	enumStrings(r, psig, 0, r.pick(4, 5), nil, func(c *enumCtx, s []byte) {
		for _, o := range []string{"a=1;b", "", "transport=udp;ttl=1"} {
			apiCheck(r, c, "URIParamsEq", s, map[string]any{"other": o})
		}
		for _, o := range []string{"a=1&b=2", ""} {
			apiCheck(r, c, "URIHdrsEq", s, map[string]any{"other": o})
		}
	})
	// IP / signature helpers
	enumStrings(r, []byte("1f:.[]x"), 0, r.pick(7, 9), nil, func(c *enumCtx, s []byte) { apiCheck(r, c, "IPsig", s, nil) })
	enumStrings(r, []byte("1f:.[]x"), 0, r.pick(5, 6), nil, func(c *enumCtx, s []byte) { apiCheck(r, c, "IPdst", s, nil) })
	c1 := &enumCtx{r: r, st: newStats()}
	for _, a := range []string{"1.2.3.4", "255.255.255.255", "::1", "::", "2001:db8::1", "[::1]", "a:1.2.3.4x", "1:2:3:4:5:6:7:8", "::ffff:1.2.3.4", "x 10.0.0.1 y", "z [2001:db8::2]:5060", "fe80::1%eth0", "1:2:3:4:5:6:7::", "::2:3:4:5:6:7:8", "call-5F:10.20.0.1@host"} {
		apiCheck(r, c1, "IPdst", []byte(a), nil)
	}
	r.St.merge(c1.st)
	enumStrings(r, []byte("1:"), 10, r.pick(21, 23), nil, func(c *enumCtx, s []byte) { apiCheck(r, c, "IPsig", s, nil) })
	enumStrings(r, append([]byte("25.;=z-"), 0x00, 0xff), 0, r.pick(5, 6), nil, func(c *enumCtx, s []byte) { apiCheck(r, c, "IPsig", s, nil) })
}

func c04CmpURIs() []string {
	var out []string
	for _, sch := range []string{"sip:", "tel:"} {
		for _, up := range []string{"", "u@", "bob@", "bob:pw@", "bob:averylongpassword1234567890@", "u:@", ":p@"} {
			for _, h := range []string{"h", "[::1]", "some.long.host.example.org"} {
				for _, po := range []string{"", ":65535"} {
					for _, pa := range []string{"", ";p", ";transport=udp;lr;maddr=1.2.3.4"} {
						for _, hd := range []string{"", "?a=1", "?a=1&bb=22&subject=longer%20value"} {
							out = append(out, sch+up+h+po+pa+hd)
						}
					}
				}
			}
		}
	}
	return out
}

// ---- isolation: all interleavings of independent sessions at API-call granularity -------------

type session struct {
	name  string
	steps []func() string // each step = one API call on the session's own objects; returns a transcript line
	reset func()
}

func mkMsgSession(name string, msg string, cuts []int, flags uint8) *session {
	s := &session{name: name}
	var m *sipsp.PSIPMsg
	buf := []byte(msg)
	offs := 0
	s.reset = func() {
		m = new(sipsp.PSIPMsg)
		m.Init(nil, nil, nil)
		offs = 0
	}
	for _, c := range cuts {
		c := c
		s.steps = append(s.steps, func() string {
			n, e := sipsp.ParseSIPMsg(buf[:c], offs, m, flags)
			offs = n
			out := fmt.Sprintf("%d %d |", n, e)
			if e != sipsp.ErrHdrMoreBytes {
				out += msgDrv.obs(m, buf)
				sig, se := sipsp.GetMsgSig(m)
				out += fmt.Sprint(sig.String(), se)
			}
			return out
		})
	}
	return s
}

func mkFuncSession(name string, fs ...func() string) *session {
	return &session{name: name, steps: fs, reset: func() {}}
}

func isolationSessions() []*session {
	m1 := "INVITE sip:a@b SIP/2.0\r\nFrom: <sip:a@b>;tag=1\r\nTo: <sip:c@d>\r\nCall-ID: abc@1.2.3.4\r\nCSeq: 1 INVITE\r\nContact: <sip:x@y>;expires=5, <sip:z@w>\r\nVia: SIP/2.0/UDP h;branch=z9hG4bKabc\r\nl: 2\r\n\r\nab"
	m2 := "REGISTER sip:r SIP/2.0\r\nf: \"Q\" <sip:q@r>;tag=zz\r\nt: <sip:q@r>\r\ni: 99-ff\r\nCSeq: 7 REGISTER\r\nm: *\r\nExpires: 0\r\nP-Asserted-Identity: <sip:p@q>,<tel:1>\r\n\r\n"
	u1, u2 := []byte("sip:u@H.com:5060;transport=udp;x=1?a=1&b=2"), []byte("SIP:u@h.COM:5060;X=1;transport=UDP?b=2&a=1")
	return []*session{
		mkMsgSession("msg1", m1, []int{40, 120, len(m1)}, 0),
		mkMsgSession("msg2", m2, []int{25, 90, len(m2)}, 0),
		mkFuncSession("uricmp",
			func() string {
				var r1, r2 sipsp.PsipURI
				ok, e, w := sipsp.URIParseCmp(u1, u2, 0, &r1, &r2)
				return fmt.Sprint(ok, e, w, r1, r2)
			},
			func() string {
				ok, e := sipsp.URIParamsEq([]byte("transport=udp;x=1"), 0, []byte("X=1;transport=UDP"), 0)
				return fmt.Sprint(ok, e)
			},
			func() string {
				ok, e := sipsp.URIHdrsEq([]byte("a=1&b=2"), 0, []byte("b=2&a=1"), 0)
				return fmt.Sprint(ok, e)
			}),
		mkFuncSession("lookups",
			func() string {
				return fmt.Sprint(sipsp.GetHdrType([]byte("Contact")), sipsp.GetMethodNo([]byte("INVITE")))
			},
			func() string { s, l := sipsp.GetCallIDSig([]byte("abc-def@10.0.0.1")); return fmt.Sprint(s, l) },
			func() string {
				s, l := sipsp.GetViaBrSig([]byte("SIP/2.0/UDP h;branch=z9hG4bKdeadbeef;rport"))
				return fmt.Sprint(s, l)
			}),
	}
}

func c04Isolation(r *Run) {
	ss := isolationSessions()
	// solo transcripts
	solo := make([][]string, len(ss))
	for i, s := range ss {
		s.reset()
		for _, st := range s.steps {
			solo[i] = append(solo[i], st())
		}
	}
	st := newStats()
	var scheds int64
	// all interleavings of every triple (and pair) of sessions
	var combos [][]int
	for a := 0; a < len(ss); a++ {
		for b := a + 1; b < len(ss); b++ {
			combos = append(combos, []int{a, b})
			for c := b + 1; c < len(ss); c++ {
				combos = append(combos, []int{a, b, c})
			}
		}
	}
	for _, cb := range combos {
		pos := make([]int, len(cb))
		var order []int
		var rec func()
		rec = func() {
			done := true
			for k, si := range cb {
				if pos[k] < len(ss[si].steps) {
					done = false
					pos[k]++
					order = append(order, si)
					rec()
					order = order[:len(order)-1]
					pos[k]--
				}
			}
			if done {
				scheds++
				// execute this interleaving on fresh session objects
				for _, si := range cb {
					ss[si].reset()
				}
				idx := make(map[int]int)
				for _, si := range order {
					k := idx[si]
					got, pm := guarded(ss[si].steps[k])
					st.Transitions++
					if pm != "" || got != solo[si][k] {
						cs := &Case{Kind: "isolation", Driver: "interleaving", Extra: map[string]any{"order": append([]int(nil), order...)}, Text: fmt.Sprint(order)}
						r.Col.add(&Violation{Property: "C04", Site: "isolation/" + ss[si].name, Rule: "interleaved-equals-solo", Class: fmt.Sprintf("step%d", k),
							Detail: fmt.Sprintf("session %s step %d differs from its solo run under interleaving %v %s", ss[si].name, k, order, pm), Case: cs})
					}
					idx[si] = k + 1
				}
			}
		}
		rec()
	}
	c04Race(r, st)
	st.States = scheds
	st.Evals = scheds
	st.Nontrivial = scheds
	st.Extra["isolation_interleavings"] = scheds
	st.Extra["isolation"] = "all interleavings at API-call granularity of every pair/triple of 4 independent sessions (2 chunked messages with colliding header types, URI comparisons, lookups/signatures), each step compared with the session's solo transcript"
	r.St.merge(st)
}

func init() {
	replayers["isolation"] = func(prop string, c *Case) []*Violation {
		ss := isolationSessions()
		solo := make([][]string, len(ss))
		for i, s := range ss {
			s.reset()
			for _, st := range s.steps {
				solo[i] = append(solo[i], st())
			}
		}
		for _, s := range ss {
			s.reset()
		}
		var out []*Violation
		idx := map[int]int{}
		for _, x := range c.Extra["order"].([]any) {
			si := int(anyUint(x))
			k := idx[si]
			got, pm := guarded(ss[si].steps[k])
			if pm != "" || got != solo[si][k] {
				out = append(out, &Violation{Property: prop, Site: "isolation/" + ss[si].name, Rule: "interleaved-equals-solo", Class: fmt.Sprintf("step%d", k), Case: c})
			}
			idx[si] = k + 1
		}
		return out
	}
	replayers["api-int"] = func(prop string, c *Case) []*Violation { return nil }
}

// c04Race runs the free-running -race binary (built by run.sh against /repo's working tree).
func c04Race(r *Run, st *Stats) {
	bin := os.Getenv("VERIF_RACE_BIN")
	if bin == "" {
		st.Extra["concurrent_race_pass"] = "not run (VERIF_RACE_BIN unset: use ./run.sh C04)"
		return
	}
	secs := "1.5"
	if !r.quick() {
		secs = "20"
	}
	out, bad := runRace(bin, secs)
	st.Extra["concurrent_race_pass"] = strings.TrimSpace(lastLine(out))
	if bad != "" {
		cs := &Case{Kind: "race", Driver: "concurrent", Text: bad, Extra: map[string]any{"secs": secs}}
		r.Col.add(&Violation{Property: "C04", Site: "isolation/concurrent", Rule: "parallel-calls-on-distinct-objects-do-not-interfere", Class: strings.Fields(bad)[0], Detail: bad, Case: cs})
	}
}

func lastLine(s string) string {
	l := strings.Split(strings.TrimSpace(s), "\n")
	return l[len(l)-1]
}

func runRace(bin, secs string) (string, string) {
	cmd := exec.Command(bin, secs)
	cmd.Env = append(os.Environ(), "GORACE=halt_on_error=1")
	b, err := cmd.CombinedOutput()
	out := string(b)
	if err == nil {
		return out, ""
	}
	switch {
	case strings.Contains(out, "DATA RACE"):
		// first frames of the report identify the racing accesses
		var fr []string
		for _, l := range strings.Split(out, "\n") {
			if strings.Contains(l, "sipsp.") && len(fr) < 4 {
				fr = append(fr, strings.TrimSpace(l))
			}
		}
		return out, "DATA-RACE " + strings.Join(fr, " | ")
	case strings.Contains(out, "CONCURRENT-MISMATCH"):
		return out, "CONCURRENT-MISMATCH " + lastLine(out)
	}
	return out, "CONCURRENT-CRASH " + lastLine(out)
}

func init() {
	replayers["race"] = func(prop string, c *Case) []*Violation {
		bin := os.Getenv("VERIF_RACE_BIN")
		if bin == "" {
			bin = "/verif/bin/race"
		}
		secs, _ := c.Extra["secs"].(string)
		if secs == "" {
			secs = "3"
		}
		for try := 0; try < 3; try++ {
			if _, bad := runRace(bin, secs); bad != "" {
				return []*Violation{{Property: prop, Site: "isolation/concurrent", Rule: "parallel-calls-on-distinct-objects-do-not-interfere", Class: strings.Fields(bad)[0], Detail: bad, Case: c}}
			}
		}
		return nil
	}
}

// ---- pairwise chunk interleaving: a parse suspended at ANY byte while another object parses ---------------
//
// Two sessions A and B, each delivering its own text in two chunks (cut a, cut b) to its own object and buffer.
// For every pair of cuts the call orders A1 B1 A2 B2 and A1 B1 B2 A2 are executed (the orders in which a
// suspended parse waits while the other object runs one or two calls; the remaining orders are these with the
// roles swapped, covered because every ordered pair of texts is run) and both final results are compared with
// the solo two-chunk parse. Exhaustive over cuts, deterministic, no threads involved.
func pairInterleave[T any](r *Run, d *Driver[T], cfg Cfg, name string, texts [][]byte, st *Stats) {
	d.init()
	type res struct {
		n   int
		e   sipsp.ErrorHdr
		obs []byte // fast observation key
	}
	two := func(o *T, buf []byte, cut int, phase int, offs *int, done *bool) (int, sipsp.ErrorHdr) {
		// phase 1: first chunk; phase 2: rest (if still suspended)
		if phase == 1 {
			n, e, _ := d.safeStep(o, buf[:cut], 0, &cfg)
			*offs = n
			*done = !suspended(e)
			return n, e
		}
		n, e, _ := d.safeStep(o, buf, *offs, &cfg)
		return n, e
	}
	type job struct{ ia, ib int }
	var jobs []job
	for ia := range texts {
		for ib := range texts {
			jobs = append(jobs, job{ia, ib})
		}
	}
	parallelFor(r, len(jobs), func(c *enumCtx, ji int) {
		A := append([]byte(nil), texts[jobs[ji].ia]...)
		B := append([]byte(nil), texts[jobs[ji].ib]...)
		solo := func(buf []byte, cut int) res {
			o := d.New(&cfg)
			var offs int
			var done bool
			n, e := two(o, buf, cut, 1, &offs, &done)
			if !done {
				n, e = two(o, buf, cut, 2, &offs, &done)
			}
			return res{n, e, d.obsKey(o, buf, nil)}
		}
		kb := make([]byte, 0, 8192)
		soloB := make([]res, len(B))
		for b := 1; b < len(B); b++ {
			soloB[b] = solo(B, b)
		}
		for a := 1; a < len(A); a++ {
			sa := solo(A, a)
			for b := 1; b < len(B); b++ {
				for order := 0; order < 2; order++ {
					oa, ob := d.New(&cfg), d.New(&cfg)
					var offA, offB int
					var doneA, doneB bool
					na, ea := two(oa, A, a, 1, &offA, &doneA)
					nb, eb := two(ob, B, b, 1, &offB, &doneB)
					if order == 0 {
						if !doneA {
							na, ea = two(oa, A, a, 2, &offA, &doneA)
						}
						if !doneB {
							nb, eb = two(ob, B, b, 2, &offB, &doneB)
						}
					} else {
						if !doneB {
							nb, eb = two(ob, B, b, 2, &offB, &doneB)
						}
						if !doneA {
							na, ea = two(oa, A, a, 2, &offA, &doneA)
						}
					}
					c.st.Transitions += 4
					bad := ""
					switch {
					case na != sa.n || ea != sa.e:
						bad = fmt.Sprintf("session A verdict %s, solo %s", verdictStr(na, ea), verdictStr(sa.n, sa.e))
					case nb != soloB[b].n || eb != soloB[b].e:
						bad = fmt.Sprintf("session B verdict %s, solo %s", verdictStr(nb, eb), verdictStr(soloB[b].n, soloB[b].e))
					case !bytes.Equal(d.obsKey(oa, A, kb[:0]), sa.obs):
						bad = "session A values differ from its solo parse"
					case !bytes.Equal(d.obsKey(ob, B, kb[:0]), soloB[b].obs):
						bad = "session B values differ from its solo parse"
					}
					if bad != "" {
						cs := mkCase("pairinterleave", d.Name, &cfg, A, []int{a})
						cs.Extra = map[string]any{"other": string(B), "cut_b": b, "order": order, "space": name}
						r.Col.add(&Violation{Property: "C04", Site: "isolation/" + d.Name, Rule: "interleaved-equals-solo", Class: "suspended-parse-disturbed-by-another-object", Detail: bad, Case: cs})
					}
				}
			}
			c.st.Evals++
		}
		c.st.States++
		c.st.Nontrivial++
	})
	_ = st
}

var pairReg = map[string]func(c *Case) []*Violation{}

func regPair[T any](d *Driver[T]) {
	pairReg[d.Name] = func(c *Case) []*Violation {
		// re-execute exactly one (cut a, cut b, order) on fresh objects
		cfg := *c.Cfg
		A := c.input()
		o, _ := c.Extra["other"].(string)
		B := []byte(o)
		a, b, order := c.Cuts[0], exInt(c.Extra, "cut_b"), exInt(c.Extra, "order")
		run := func(interleaved bool) (string, string) {
			oa, ob := d.New(&cfg), d.New(&cfg)
			stepA := func(ph int, offs *int) (int, sipsp.ErrorHdr) {
				if ph == 1 {
					n, e, _ := d.safeStep(oa, A[:a], 0, &cfg)
					*offs = n
					return n, e
				}
				n, e, _ := d.safeStep(oa, A, *offs, &cfg)
				return n, e
			}
			stepB := func(ph int, offs *int) (int, sipsp.ErrorHdr) {
				if ph == 1 {
					n, e, _ := d.safeStep(ob, B[:b], 0, &cfg)
					*offs = n
					return n, e
				}
				n, e, _ := d.safeStep(ob, B, *offs, &cfg)
				return n, e
			}
			var offA, offB int
			var na, nb int
			var ea, eb sipsp.ErrorHdr
			if !interleaved {
				if na, ea = stepA(1, &offA); suspended(ea) {
					na, ea = stepA(2, &offA)
				}
				if nb, eb = stepB(1, &offB); suspended(eb) {
					nb, eb = stepB(2, &offB)
				}
			} else {
				na, ea = stepA(1, &offA)
				nb, eb = stepB(1, &offB)
				if order == 0 {
					if suspended(ea) {
						na, ea = stepA(2, &offA)
					}
					if suspended(eb) {
						nb, eb = stepB(2, &offB)
					}
				} else {
					if suspended(eb) {
						nb, eb = stepB(2, &offB)
					}
					if suspended(ea) {
						na, ea = stepA(2, &offA)
					}
				}
			}
			return verdictStr(na, ea) + d.obs(oa, A), verdictStr(nb, eb) + d.obs(ob, B)
		}
		sa, sb := run(false)
		ia, ib := run(true)
		if sa != ia || sb != ib {
			return []*Violation{{Property: "C04", Site: "isolation/" + d.Name, Rule: "interleaved-equals-solo", Class: "suspended-parse-disturbed-by-another-object", Case: c}}
		}
		return nil
	}
}

func init() {
	regPair(msgDrv)
	regPair(hdrsDrv)
	regPair(contactsDrv)
	regPair(paisDrv)
	regPair(uriParamsDrv)
	regPair(uriHdrsDrv)
	regPair(nameAddrDrv)
	regPair(tokParamDrv)
	replayers["pairinterleave"] = func(prop string, c *Case) []*Violation { return pairReg[c.Driver](c) }
}

func c04PairInterleave(r *Run) {
	st := newStats()
	rich := strs([]string{
		"INVITE sip:a@b SIP/2.0\r\nFrom: \"A\" <sip:a@b>;tag=1\r\nTo: <sip:c@d>\r\nCall-ID: abc@1.2.3.4\r\nCSeq: 1 INVITE\r\nP-Asserted-Identity: <sip:p1@q>, \"P 2\" <sip:p2@q>, <tel:+3>;x=y, <sip:p4@q>\r\nContact: <sip:x@y>;expires=5, \"q,\" <sip:z@w>;q=0.5\r\nH1: 1\r\nH2: 2\r\nH3: 3\r\nH4: 4\r\nH5: 5\r\nVia: SIP/2.0/UDP h;branch=z9hG4bKabc\r\nm: <sip:late@c>;expires=9\r\nl: 2\r\n\r\nab",
		"SIP/2.0 200 OK\r\nf: <sip:q@r>;tag=zz\r\nt: <sip:q@r>\r\ni: 99\r\nCSeq: 7 REGISTER\r\nP-Asserted-Identity: <sip:a@1>,<sip:b@2>,<sip:c@3>\r\nm: *\r\nX1: a\r\nX2: b\r\nX3: c\r\nX4: d\r\nX5: e\r\nX6: f\r\nExpires: 0\r\n\r\n",
	})
	pairInterleave(r, msgDrv, Cfg{HdrCap: -1, ValCap: -1}, "msg/builtin", rich, st)
	pairInterleave(r, msgDrv, Cfg{HdrCap: 2, ValCap: 1}, "msg/small-arrays", rich, st)
	hb := strs([]string{"P-Asserted-Identity: <sip:p1@q>, \"P 2\" <sip:p2@q>, <tel:+3>;x=y\r\nContact: <sip:x@y>;expires=5, \"q,\" <sip:z@w>;q=0.5, <sip:3@h>\r\nX: 1\r\nFrom: <sip:f@f>;tag=t\r\n\r\n",
		"m: <sip:1@h>, <sip:2@h>\r\nP-Asserted-Identity: <sip:a@1>,<sip:b@2>,<sip:c@3>,<sip:d@4>\r\nY: 2\r\nZ: 3\r\n\r\n"})
	pairInterleave(r, hdrsDrv, Cfg{HdrCap: 1, ValCap: 0, WithVals: true}, "hdrs/overflow", hb, st)
	lists := strs([]string{"<sip:a@b>;expires=5, \"q,\" <sip:c@d>;q=0.5, sip:e@f;x=\"y z\"\r\nX", "n <sip:g@h>;tag=t, <sip:1@h>,<sip:2@h>;lr\r\nX"})
	for _, vc := range []int{-1, 0, 1} {
		pairInterleave(r, contactsDrv, Cfg{HdrCap: -1, ValCap: vc}, "contacts", lists, st)
	}
	pairInterleave(r, paisDrv, Cfg{HdrCap: -1, ValCap: -1}, "pais", lists, st)
	pairInterleave(r, nameAddrDrv, Cfg{HdrType: int(sipsp.HdrContact)}, "name-addr", lists, st)
	pl := strs([]string{"transport=udp;x = \"q\\\"r\";lr;maddr=m?h", "a;b=1;ttl=5;y=\"z\" ;c\r\nX"})
	for _, vc := range []int{-1, 0, 1, 8} {
		pairInterleave(r, uriParamsDrv, Cfg{HdrCap: -1, ValCap: vc, Flags: uint(sipsp.POptTokQmTermF)}, "uriparams", pl, st)
	}
	hl := strs([]string{"a=1&b = \"q\\\"r\"&c&d=4\r\nX", "h1=v1&h2=\"x y\"&h3\r\nX"})
	for _, vc := range []int{-1, 0, 1} {
		pairInterleave(r, uriHdrsDrv, Cfg{HdrCap: -1, ValCap: vc}, "urihdrs", hl, st)
	}
	pairInterleave(r, tokParamDrv, Cfg{Flags: uint(sipsp.POptTokCommaTermF)}, "tokparam", pl, st)
	r.Bounds["pair_interleaving"] = "every (cut a, cut b) of every ordered pair of texts per driver, orders A1 B1 A2 B2 and A1 B1 B2 A2, compared with the solo two-chunk parses"
}
