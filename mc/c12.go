package main

// E2: history BFS with state hashing over one reused parser object.

import (
	"bytes"
	"fmt"
	"reflect"
	"strings"
	"sync"
	"time"

	"github.com/intuitivelabs/sipsp"
)

type resetOp[T any] struct {
	Name string
	Fn   func(o *T, cfg *Cfg)
}

type histStep struct {
	Input   int    `json:"input"`   // index into the menu
	Abandon int    `json:"abandon"` // prefix length given to the single call before the object is abandoned
	Reset   string `json:"reset"`
	Offs    int    `json:"offs,omitempty"` // start offset of the abandoned call (the input lies behind that many junk bytes)
}

type histState[T any] struct {
	o    *T
	hist []histStep
}

type c12Space[T any] struct {
	drv    *Driver[T]
	resets []resetOp[T]
	inputs [][]byte
	cfgs   []Cfg
	name   string
	offs   []int // start offsets used for the abandoned call (nil: only 0); the behaviour test always starts at 0
}

func histBuf(in []byte, c, k int) []byte {
	if k == 0 {
		return in[:c]
	}
	return append(bytes.Repeat([]byte("#"), k), in[:c]...)
}

// behaves: parse every menu input on a clone of the reset object and on a new object (one-shot and every single cut).
func behaves[T any](d *Driver[T], cfg *Cfg, o *T, inputs [][]byte, st *Stats) (bad string, class string, inp int, cut int) {
	for bi, b := range inputs {
		cuts := []int{0}
		for c := 1; c < len(b); c++ {
			cuts = append(cuts, c)
		}
		for _, c := range cuts {
			used, fresh := d.clone(o), d.New(cfg)
			run := func(x *T) (int, sipsp.ErrorHdr, string) {
				offs := 0
				if c > 0 {
					n, e, pm := d.safeStep(x, b[:c], 0, cfg)
					if !suspended(e) {
						return n, e, pm
					}
					offs = n
				}
				return d.safeStep(x, b, offs, cfg)
			}
			un, ue, upm := run(used)
			fn, fe, _ := run(fresh)
			st.Transitions += 2
			if ue == errPanic && fe != errPanic {
				return fmt.Sprintf("reused object panics: %s (new object: %s)", upm, verdictStr(fn, fe)), "panic", bi, c
			}
			if un != fn || ue != fe {
				return fmt.Sprintf("reused %s new %s", verdictStr(un, ue), verdictStr(fn, fe)), "verdict:" + errName(fe) + "/" + errName(ue), bi, c
			}
			if suspended(ue) {
				continue
			}
			uo, fo := d.obs(used, b), d.obs(fresh, b)
			if !successLike(ue) {
				// PSIPMsg.Reset keeps the caller's buffer reference (Buf) by design and a failed parse does not
				// touch it: not part of "behaviour on later input"
				keep := func(l string) bool { return strings.HasPrefix(l, ".Buf=") }
				uo, fo = exemptFilter(uo, keep), exemptFilter(fo, keep)
			}
			if uo != fo {
				return firstDiff(fo, uo), "values:" + diffField(fo, uo), bi, c
			}
		}
	}
	return "", "", 0, 0
}

func historyBFS[T any](r *Run, sp *c12Space[T]) {
	d := sp.drv
	d.init()
	maxStates := r.pick(150, 1500)
	maxDepth := r.pick(3, 6)
	for _, cfg0 := range sp.cfgs {
		cfg := cfg0
		init := d.New(&cfg)
		initKey := string(d.key(init, nil, nil))
		seen := map[string]bool{initKey: true}
		frontier := []*histState[T]{{o: init}}
		st := newStats()
		st.States = 1
		closed := false
		for depth := 1; depth <= maxDepth && len(frontier) > 0; depth++ {
			var mu sync.Mutex
			var next []*histState[T]
			type cand struct {
				o    *T
				key  string
				hist []histStep
			}
			var cands []cand
			// expand: every (input, abandon point, reset op) from every frontier state
			var wg sync.WaitGroup
			sem := make(chan struct{}, r.Workers)
			for _, s := range frontier {
				for ii := range sp.inputs {
					wg.Add(1)
					sem <- struct{}{}
					go func(s *histState[T], ii int) {
						defer wg.Done()
						defer func() { <-sem }()
						in := sp.inputs[ii]
						var local []cand
						var tr int64
						hoffs := sp.offs
						if hoffs == nil {
							hoffs = []int{0}
						} else if !r.quick() {
							hoffs = append(append([]int(nil), hoffs...), 1, 255, 4099)
						}
						for ck := 0; ck < len(hoffs)*len(in); ck++ {
							c, k := ck%len(in)+1, hoffs[ck/len(in)]
							o := d.clone(s.o)
							d.safeStep(o, histBuf(in, c, k), k, &cfg)
							for _, rs := range sp.resets {
								o2 := d.clone(o)
								_, pm := guarded(func() string { rs.Fn(o2, &cfg); return "" })
								tr++
								if pm != "" {
									cs := &Case{Kind: "C12", Driver: d.Name, Cfg: &cfg, Text: fmt.Sprintf("%q[:%d]", in, c), Extra: map[string]any{"space": sp.name, "hist": append(append([]histStep(nil), s.hist...), histStep{ii, c, rs.Name, k})}}
									r.Col.add(&Violation{Property: "C12", Site: d.Name + "." + rs.Name, Rule: "reset-does-not-panic", Class: "panic", Detail: pm, Case: cs})
									continue
								}
								key := string(d.key(o2, nil, nil))
								local = append(local, cand{o2, key, append(append([]histStep(nil), s.hist...), histStep{ii, c, rs.Name, k})})
							}
						}
						mu.Lock()
						for _, x := range local {
							if !seen[x.key] {
								seen[x.key] = true
								cands = append(cands, x)
							}
						}
						st.Transitions += tr
						mu.Unlock()
					}(s, ii)
				}
			}
			wg.Wait()
			// every new (dirty) post-reset state: must behave like a new object
			for _, x := range cands {
				st.States++
				st.addExtra("dirty_post_reset_states", 1)
				if int(st.States) > maxStates {
					st.Exhaustive = false
					st.CapsHit = append(st.CapsHit, fmt.Sprintf("state cap %d (%s)", maxStates, d.Name))
					break
				}
				x := x
				bad, class, bi, cut := behaves(d, &cfg, x.o, sp.inputs, st)
				if bad != "" {
					last := x.hist[len(x.hist)-1]
					cs := &Case{Kind: "C12", Driver: d.Name, Cfg: &cfg, Text: fmt.Sprintf("history %v then input %q cut %d", x.hist, sp.inputs[bi], cut),
						Extra: map[string]any{"space": sp.name, "hist": x.hist, "then": bi, "cut": cut}}
					cs.Input = ""
					r.Col.add(&Violation{Property: "C12", Site: d.Name + "." + last.Reset, Rule: "behaves-like-new-after-reset", Class: class, Detail: bad, Case: cs})
				}
				next = append(next, &histState[T]{o: x.o, hist: x.hist})
			}
			frontier = next
			if len(next) == 0 {
				closed = true
			}
		}
		if !closed && len(frontier) > 0 {
			st.Exhaustive = false
			st.CapsHit = append(st.CapsHit, fmt.Sprintf("depth cap %d with %d unexpanded states (%s)", maxDepth, len(frontier), d.Name))
		}
		st.Evals = st.Transitions
		st.Nontrivial = st.States
		st.outcome(fmt.Sprintf("%s closed=%v", d.Name, closed))
		r.noteSpace(fmt.Sprintf("%s %s [%s] closed=%v", d.Name, sp.name, cfg, closed), st.States, st.Transitions, 0)
		r.St.merge(st)
	}
}

// replay of a C12 history: re-apply the history on a new object, then run the behaviour comparison.
var c12Replay = map[string]func(c *Case) []*Violation{}

func regC12[T any](sp *c12Space[T]) {
	c12Replay[sp.drv.Name+"/"+sp.name] = func(c *Case) []*Violation {
		d := sp.drv
		d.init()
		cfg := *c.Cfg
		var hist []histStep
		remarshal(c.Extra["hist"], &hist)
		o := d.New(&cfg)
		var out []*Violation
		for _, h := range hist {
			d.safeStep(o, histBuf(sp.inputs[h.Input], h.Abandon, h.Offs), h.Offs, &cfg)
			for _, rs := range sp.resets {
				if rs.Name == h.Reset {
					if _, pm := guarded(func() string { rs.Fn(o, &cfg); return "" }); pm != "" {
						return []*Violation{{Property: "C12", Site: d.Name + "." + rs.Name, Rule: "reset-does-not-panic", Class: "panic", Detail: pm, Case: c}}
					}
				}
			}
		}
		bad, class, _, _ := behaves(d, &cfg, o, sp.inputs, newStats())
		if bad != "" {
			out = append(out, &Violation{Property: "C12", Site: d.Name + "." + hist[len(hist)-1].Reset, Rule: "behaves-like-new-after-reset", Class: class, Detail: bad, Case: c})
		}
		return out
	}
}

var c12MsgInputs = []string{
	"INVITE sip:a@b SIP/2.0\r\nFrom: \"A\" <sip:a@b>;tag=x\r\nTo: <sip:c@d>\r\nCall-ID: c1\r\nCSeq: 1 INVITE\r\nContact: <sip:x@y>;expires=5, \"q\" <sip:z@w>;q=0.5\r\nl: 2\r\n\r\nab",
	"SIP/2.0 200 OK\r\nP-Asserted-Identity: \"P\" <sip:p@q>, <tel:+1>\r\nExpires: 60\r\nm: <sip:only@one>\r\nX: 1\r\n\r\n",
	"REGISTER sip:r SIP/2.0\r\nContact: *\r\nt: <sip:t@t>;tag=tt\r\nf: sip:f@f\r\ni: id\r\n\r\n",
	"BYE sip:b SIP/2.0\r\nFrom: <sip:a@b>>\r\n\r\n",
	"NOTIFY sip:n SIP/2.0\r\nContact: <sip:one@h>;expires=9, <sip:two@h>;q=0.5, <sip:th<ree@h>\r\nl: 0\r\n\r\n", // fails in the third value of a list
	"OPTIONS sip:o SIP/2.0\r\nH1: 1\r\nH2: 2\r\nH3: 3\r\nContact: <sip:1@h>, <sip:2@h>, <sip:3@h>;expires=9\r\nContent-Length: 99999999\r\n\r\n",
}

var c12HdrInputs = []string{
	"From: \"A\" <sip:a@b>;tag=x\r\nContact: <sip:x@y>;expires=5, \"q\" <sip:z@w>;q=0.5\r\n\r\n",
	"P-Asserted-Identity: \"P\" <sip:p@q>, <tel:+1>\r\nExpires: 60\r\nCSeq: 5 X\r\n\r\n",
	"m: <sip:1@h>, <sip:2@h>, <sip:3@h>;expires=9\r\nl: 3\r\ni: cid\r\nTo: t <sip:t@t>;tag=1\r\n\r\n",
	"Contact: \"unterminated\r\n\r\n",
	"X: 1\r\nY: 2\r\nZ: 3\r\n\r\n",
}

func checkC12(r *Run) {
	if r == nil {
		r = &Run{Tier: "quick"}
		defer func() { recover() }() // registration only: stop at the first use of the (absent) run context
	}
	r.Assume = []string{"operations: one call on every prefix length of every menu input (completed / suspended at any byte / failed), then Reset or Init; BFS over distinct post-reset states (full-state key incl. caller arrays)",
		"a post-reset state whose full key equals a new object's is clean by construction; every other (dirty) state is tested on every menu input one-shot and with every single cut against a new object",
		"chunked abandon (several calls before abandoning) reaches the same states as one call by C01/C02"}
	caps := []int{-1, 0, 1, 2, 8}
	if !r.quick() {
		caps = []int{-1, 0, 1, 2, 3, 4, 5, 8, 40}
	}
	var mcf []Cfg
	for _, h := range []int{-1, 2, 8} {
		for _, v := range caps {
			if r.quick() && h == 2 && v != 1 {
				continue
			}
			mcf = append(mcf, Cfg{HdrCap: h, ValCap: v})
		}
	}
	sameHdrs := func(o *sipsp.PSIPMsg, cfg *Cfg) []sipsp.Hdr {
		if cfg.HdrCap < 0 {
			return nil
		}
		return o.HL.Hdrs
	}
	sameVals := func(v []sipsp.PFromBody, cfg *Cfg) []sipsp.PFromBody {
		if cfg.ValCap < 0 {
			return nil
		}
		return v
	}
	msgSp := &c12Space[sipsp.PSIPMsg]{drv: msgDrv, name: "msg", inputs: strs(c12MsgInputs), cfgs: mcf, resets: []resetOp[sipsp.PSIPMsg]{
		{"Reset", func(o *sipsp.PSIPMsg, cfg *Cfg) { o.Reset() }},
		{"Init", func(o *sipsp.PSIPMsg, cfg *Cfg) { o.Init(nil, sameHdrs(o, cfg), sameVals(o.PV.Contacts.Vals, cfg)) }},
		// the caller's arrays are swapped for a second set, a short message is parsed into that one, and the first
		// set is attached again: "the same caller-supplied arrays" as a new object would get
		{"InitSwap", func(o *sipsp.PSIPMsg, cfg *Cfg) {
			ah, av := sameHdrs(o, cfg), sameVals(o.PV.Contacts.Vals, cfg)
			o.Init(nil, mkHdrs(cfg.HdrCap), mkVals(cfg.ValCap))
			sipsp.ParseSIPMsg([]byte("REGISTER sip:r SIP/2.0\r\nContact: <sip:one@h>\r\nl: 0\r\n\r\n"), 0, o, 0)
			o.Init(nil, ah, av)
		}},
		// the used object is copied by value (Go structs are) and the copy is initialised and used from then on
		{"CopyInit", func(o *sipsp.PSIPMsg, cfg *Cfg) {
			n := new(sipsp.PSIPMsg)
			*n = *o
			n.Init(nil, sameHdrs(n, cfg), sameVals(n.PV.Contacts.Vals, cfg))
			*o = *n
		}},
	}, offs: []int{0, 32}}
	var hcf []Cfg
	for _, h := range []int{-1, 0, 1, 8} {
		for _, v := range caps {
			hcf = append(hcf, Cfg{HdrCap: h, ValCap: v, WithVals: true})
		}
	}
	hdrsSp := &c12Space[HdrsObj]{offs: []int{0, 19}, drv: hdrsDrv, name: "hdrs", inputs: strs(c12HdrInputs), cfgs: hcf, resets: []resetOp[HdrsObj]{
		{"Reset", func(o *HdrsObj, cfg *Cfg) { o.HL.Reset(); o.PV.Reset() }},
		{"Init", func(o *HdrsObj, cfg *Cfg) { o.HL.Reset(); o.PV.Init(sameVals(o.PV.Contacts.Vals, cfg)) }},
	}}
	hdrSp := &c12Space[HdrObj]{offs: []int{0, 19}, drv: hdrLineDrv, name: "hdrline", inputs: strs([]string{"From: \"A\" <sip:a@b>;tag=x\r\nX", "Contact: <sip:x@y>;expires=5, \"q\" <sip:z@w>;q=0.5\r\nX", "P-Asserted-Identity: <sip:p@q>, <tel:1>\r\nX", "CSeq: 1 A\r\nX", "l: 5\r\nX", "i: c\r\nX", "Expires: 7\r\nX", "To: \"u\r\nX", "G: v\r\n w\r\nX"}),
		cfgs: []Cfg{{ValCap: -1, WithVals: true}, {ValCap: 0, WithVals: true}, {ValCap: 1, WithVals: true}, {ValCap: 4, WithVals: true}}, resets: []resetOp[HdrObj]{
			{"Reset", func(o *HdrObj, cfg *Cfg) { o.H.Reset(); o.PV.Reset() }},
			{"Init", func(o *HdrObj, cfg *Cfg) { o.H.Reset(); o.PV.Init(sameVals(o.PV.Contacts.Vals, cfg)) }},
		}}
	listIn := strs([]string{"<sip:a@h>;expires=3, <>, \"n\" <>;q=0.1, <sip:d@h>\r\nX", "<sip:one@h>;expires=9, <sip:two@h>;q=0.5, <sip:b ad@h>, <sip:four@h>\r\nX", "<sip:a@b>;expires=5, \"q,\" <sip:c@d>;q=0.5, sip:e@f\r\nX", "*\r\nX", "<sip:1@h>,<sip:2@h>,<sip:3@h>,<sip:4@h>\r\nX", "\"open <sip:x>\r\nX", "n <sip:g@h>;tag=t;lr\r\nX"})
	var many []string
	for i := 0; i < 36; i++ {
		many = append(many, fmt.Sprintf("<sip:%d@h>;expires=%d", i, i+1))
	}
	listIn = append(listIn, []byte(strings.Join(many, ",")+"\r\nX"), []byte(strings.Join(many[:34], ", ")+"\r\nX"))
	var lcf []Cfg
	for _, v := range caps {
		lcf = append(lcf, Cfg{ValCap: v, HdrCap: -1})
	}
	lcf = append(lcf, Cfg{ValCap: 40, HdrCap: -1})
	ctSp := &c12Space[sipsp.PContacts]{offs: []int{0, 19}, drv: contactsDrv, name: "contacts", inputs: listIn, cfgs: lcf, resets: []resetOp[sipsp.PContacts]{{"Reset", func(o *sipsp.PContacts, cfg *Cfg) { o.Reset() }},
		{"Init", func(o *sipsp.PContacts, cfg *Cfg) { o.Init(sameVals(o.Vals, cfg)) }}}}
	paiSp := &c12Space[sipsp.PPAIs]{drv: paisDrv, name: "pais", inputs: listIn, cfgs: lcf[:1], resets: []resetOp[sipsp.PPAIs]{{"Reset", func(o *sipsp.PPAIs, cfg *Cfg) { o.Reset() }}, {"Init", func(o *sipsp.PPAIs, cfg *Cfg) { o.Init() }}}}
	naSp := &c12Space[sipsp.PFromBody]{offs: []int{0, 19}, drv: nameAddrDrv, name: "name-addr", inputs: listIn, cfgs: []Cfg{{HdrType: int(sipsp.HdrFrom)}, {HdrType: int(sipsp.HdrContact)}}, resets: []resetOp[sipsp.PFromBody]{{"Reset", func(o *sipsp.PFromBody, cfg *Cfg) { o.Reset() }}}}
	numIn := strs([]string{"42 INVITE\r\nX", " 7\r\n X \r\nY", "4294967296 A\r\nX", "x\r\nX", "12345\r\nX"})
	csSp := &c12Space[sipsp.PCSeqBody]{offs: []int{0, 19}, drv: cseqDrv, name: "cseq", inputs: numIn, cfgs: []Cfg{{}}, resets: []resetOp[sipsp.PCSeqBody]{{"Reset", func(o *sipsp.PCSeqBody, cfg *Cfg) { o.Reset() }}}}
	ciSp := &c12Space[sipsp.PCallIDBody]{drv: callidDrv, name: "callid", inputs: numIn, cfgs: []Cfg{{}}, resets: []resetOp[sipsp.PCallIDBody]{{"Reset", func(o *sipsp.PCallIDBody, cfg *Cfg) { o.Reset() }}}}
	uiSp := &c12Space[sipsp.PUIntBody]{drv: uintDrv, name: "uint", inputs: numIn, cfgs: []Cfg{{Flags: 0}, {Flags: 1}}, resets: []resetOp[sipsp.PUIntBody]{{"Reset", func(o *sipsp.PUIntBody, cfg *Cfg) { o.Reset() }}}}
	flSp := &c12Space[sipsp.PFLine]{offs: []int{0, 19}, drv: flineDrv, name: "fline", inputs: strs([]string{"INVITE sip:a@b SIP/2.0\r\nX", "SIP/2.0 404 Not Found\r\nX", "SIP/2.0 2x0 OK\r\nXXXX", "A  b c\r\nXXXXXXXXXXX"}), cfgs: []Cfg{{}}, resets: []resetOp[sipsp.PFLine]{{"Reset", func(o *sipsp.PFLine, cfg *Cfg) { o.Reset() }}}}
	tokIn := strs([]string{"branch = \"q\\\"x\" ; lr;x=1,next", "a=b\r\nX", "a=\"open", "=bad", "a;;b = c ?h"})
	tkSp := &c12Space[sipsp.PTokParam]{offs: []int{0, 19}, drv: tokParamDrv, name: "tokparam", inputs: tokIn, cfgs: []Cfg{{Flags: uint(sipsp.POptTokCommaTermF)}, {Flags: uint(sipsp.POptTokURIParamF)}, {Flags: uint(sipsp.POptTokSpTermF)}}, resets: []resetOp[sipsp.PTokParam]{{"Reset", func(o *sipsp.PTokParam, cfg *Cfg) { o.Reset() }}}}
	var ucf []Cfg
	for _, v := range caps {
		ucf = append(ucf, Cfg{ValCap: v, HdrCap: -1}, Cfg{ValCap: v, HdrCap: -1, Flags: uint(sipsp.POptInputEndF)})
	}
	upSp := &c12Space[URIParamsObj]{drv: uriParamsDrv, name: "uriparams", inputs: tokIn, cfgs: ucf, resets: []resetOp[URIParamsObj]{{"Reset", func(o *URIParamsObj, cfg *Cfg) { o.L.Reset(); o.Total = 0 }},
		{"Init", func(o *URIParamsObj, cfg *Cfg) {
			if cfg.ValCap < 0 {
				o.L.Init(nil)
			} else {
				o.L.Init(o.L.Params)
			}
			o.Total = 0
		}}}}
	uhIn := strs([]string{"a=1&b = \"q\"&c", "x=\"open", "a&&b=2\r\nX", "=bad", "h1=v1&h2=v2&h3=v3&h4"})
	uhSp := &c12Space[URIHdrsObj]{drv: uriHdrsDrv, name: "urihdrs", inputs: uhIn, cfgs: ucf, resets: []resetOp[URIHdrsObj]{{"Reset", func(o *URIHdrsObj, cfg *Cfg) { o.L.Reset(); o.Total = 0 }},
		{"Init", func(o *URIHdrsObj, cfg *Cfg) {
			if cfg.ValCap < 0 {
				o.L.Init(nil)
			} else {
				o.L.Init(o.L.Hdrs)
			}
			o.Total = 0
		}}}}

	regC12(msgSp)
	regC12(hdrsSp)
	regC12(hdrSp)
	regC12(ctSp)
	regC12(paiSp)
	regC12(naSp)
	regC12(csSp)
	regC12(ciSp)
	regC12(uiSp)
	regC12(flSp)
	regC12(tkSp)
	regC12(upSp)
	regC12(uhSp)
	if r.Col == nil {
		return
	}
	historyBFS(r, ctSp)
	historyBFS(r, paiSp)
	historyBFS(r, naSp)
	historyBFS(r, csSp)
	historyBFS(r, ciSp)
	historyBFS(r, uiSp)
	historyBFS(r, flSp)
	historyBFS(r, tkSp)
	historyBFS(r, upSp)
	historyBFS(r, uhSp)
	historyBFS(r, hdrSp)
	historyBFS(r, hdrsSp)
	historyBFS(r, msgSp)
	c12InitNil(r)
	c12URI(r)
	c12CallerArrays(r)
}

// c12InitNil: an object that worked on caller-supplied arrays is initialised without arrays (Init(buf, nil, nil)): from
// then on it behaves like a new object initialised the same way - built-in arrays, none of the caller's.
func c12InitNil(r *Run) {
	msgDrv.init()
	st := newStats()
	for ai, a := range c12MsgInputs {
		for _, b := range c12MsgInputs {
			for _, caps := range [][2]int{{0, 0}, {1, 1}, {2, 1}, {3, 0}, {12, 12}, {-1, 2}, {2, -1}} {
				for _, cut := range []int{len(a), len(a) / 2, 13} {
					used := new(sipsp.PSIPMsg)
					ch, cv := mkHdrs(caps[0]), mkVals(caps[1])
					used.Init(nil, ch, cv)
					sipsp.ParseSIPMsg([]byte(a)[:cut], 0, used, 0)
					used.Init(nil, nil, nil)
					fresh := new(sipsp.PSIPMsg)
					fresh.Init(nil, nil, nil)
					un, ue := sipsp.ParseSIPMsg([]byte(b), 0, used, 0)
					fn, fe := sipsp.ParseSIPMsg([]byte(b), 0, fresh, 0)
					st.Transitions += 3
					st.Evals++
					st.States++
					uo, fo := msgDrv.obs(used, []byte(b)), msgDrv.obs(fresh, []byte(b))
					if un != fn || ue != fe || uo != fo {
						cs := mkCase("C12initnil", "ParseSIPMsg.Init(nil arrays)", &Cfg{HdrCap: caps[0], ValCap: caps[1]}, []byte(b), nil)
						cs.Extra = map[string]any{"first": ai, "cut": cut}
						det := fmt.Sprintf("(%d,%v) new object (%d,%v)", un, ue, fn, fe)
						if un == fn && ue == fe {
							det = firstDiff(fo, uo)
						}
						r.Col.add(&Violation{Property: "C12", Site: "ParseSIPMsg.Init", Rule: "behaves-like-new-after-reset", Class: "init-without-arrays-after-caller-arrays", Detail: det, Case: cs})
					}
				}
			}
		}
	}
	r.St.merge(st)
}

// PsipURI.Reset: parse A, Reset, parse B == new object parsing B (ParseURI fills a caller-supplied structure).
func c12URI(r *Run) {
	uris := []string{"sip:u:p@h:5060;a=1?x=2", "sips:[::1]", "tel:+1;x", "sip:h", "sip:u@h?h=1", "sip:bad@@", "sip:h:99999", "sip:a;b:c;d@e"}
	st := newStats()
	for _, a := range uris {
		for _, b := range uris {
			var u, f sipsp.PsipURI
			sipsp.ParseURI([]byte(a), &u)
			u.Reset()
			e1, n1 := sipsp.ParseURI([]byte(b), &u)
			e2, n2 := sipsp.ParseURI([]byte(b), &f)
			st.Transitions += 2
			st.Evals++
			st.States++
			if e1 != e2 || n1 != n2 || !reflect.DeepEqual(u, f) {
				cs := mkCase("C12uri", "PsipURI.Reset", nil, []byte(a), nil)
				cs.Extra = map[string]any{"then": b}
				r.Col.add(&Violation{Property: "C12", Site: "PsipURI.Reset", Rule: "behaves-like-new-after-reset", Class: "uri", Detail: fmt.Sprintf("%+v vs %+v", u, f), Case: cs})
			}
		}
	}
	r.St.merge(st)
}

func init() {
	replayers["C12"] = func(prop string, c *Case) []*Violation {
		if len(c12Replay) == 0 {
			checkC12(nil)
		}
		sp, _ := c.Extra["space"].(string)
		return c12Replay[c.Driver+"/"+sp](c)
	}
	replayers["C12initnil"] = func(prop string, c *Case) []*Violation {
		msgDrv.init()
		a, b := []byte(c12MsgInputs[exInt(c.Extra, "first")]), c.input()
		used := new(sipsp.PSIPMsg)
		used.Init(nil, mkHdrs(c.Cfg.HdrCap), mkVals(c.Cfg.ValCap))
		sipsp.ParseSIPMsg(a[:exInt(c.Extra, "cut")], 0, used, 0)
		used.Init(nil, nil, nil)
		fresh := new(sipsp.PSIPMsg)
		fresh.Init(nil, nil, nil)
		un, ue := sipsp.ParseSIPMsg(b, 0, used, 0)
		fn, fe := sipsp.ParseSIPMsg(b, 0, fresh, 0)
		if un != fn || ue != fe || msgDrv.obs(used, b) != msgDrv.obs(fresh, b) {
			return []*Violation{{Property: prop, Site: "ParseSIPMsg.Init", Rule: "behaves-like-new-after-reset", Class: "init-without-arrays-after-caller-arrays", Case: c}}
		}
		return nil
	}
	replayers["C12uri"] = func(prop string, c *Case) []*Violation {
		b, _ := c.Extra["then"].(string)
		var u, f sipsp.PsipURI
		sipsp.ParseURI(c.input(), &u)
		u.Reset()
		e1, n1 := sipsp.ParseURI([]byte(b), &u)
		e2, n2 := sipsp.ParseURI([]byte(b), &f)
		if e1 != e2 || n1 != n2 || !reflect.DeepEqual(u, f) {
			return []*Violation{{Property: prop, Site: "PsipURI.Reset", Rule: "behaves-like-new-after-reset", Class: "uri", Case: c}}
		}
		return nil
	}
	_ = bytes.Equal
	register("C12", &checkDef{fn: checkC12,
		rule:        "E2 history BFS per object type: transitions = (one call on a prefix of a menu input) + Reset/Init executed on the real code from every distinct post-reset state; states = distinct full-state keys after reset (1 = only the pristine state); every dirty state is compared with a new object on every menu input (one-shot and every single cut); search runs to closure or to the stated caps",
		quickBudget: 150 * time.Second, thorBudget: 30 * time.Minute})
}
