package main

import (
	"bytes"

	"github.com/intuitivelabs/sipsp"
)

// c03Big: extensions that make the buffer as large as, and larger than, the 65,535 bytes the 16-bit offsets can
// address. A definitive result on b only speaks about bytes of b, so it is the same when b is the head of a
// stream buffer of 65,535 / 65,536 / 65,537 / 70,000 / 131,072 bytes, whatever fills the rest (token bytes, blanks,
// line ends, NULs, further copies of b).
func bigExtensions[T any](r *Run, d *Driver[T], cfgs []Cfg, inputs [][]byte, or Oracles) {
	d.init()
	totals := []int{65535, 65536, 65537, 70000, 131072}
	fills := []string{"x", " ", "\r\n", "\x00", ""}
	parallelFor(r, len(inputs), func(c *enumCtx, i int) {
		b := inputs[i]
		for _, cfg := range cfgs {
			cfg := cfg
			o := d.New(&cfg)
			pre := append(junkBytes(cfg.Junk, cfg.Offs), b...)
			_, e, _ := d.safeStep(o, pre, cfg.Offs, &cfg)
			c.st.Evals++
			if suspended(e) {
				continue
			}
			c.st.States++
			c.st.Nontrivial++
			for _, t := range totals {
				for _, f := range fills {
					if f == "" {
						f = string(b)
					}
					n := t - cfg.Offs - len(b)
					if n <= 0 {
						continue
					}
					w := append(append([]byte(nil), b...), bytes.Repeat([]byte(f), n/len(f)+1)[:n]...)
					cs := mkCase("extension", d.Name, &cfg, w, []int{len(b), len(w)})
					c.st.Transitions++
					c.st.addExtra("extensions_to_64k_and_beyond", 1)
					for _, v := range replayExtension(r.Prop, d, cs, or) {
						r.Col.add(v)
					}
				}
			}
		}
	})
}

func c03Big(r0 *Run, mor Oracles) {
	or := Oracles{Extension: true}
	few := func(sps []space, idx int) [][]byte { return collectInputs(sps[idx].gen, 120) }
	// the input sets are those of the quick tier in both tiers (collectInputs materialises a whole trie before it
	// strides: the thorough tries have 10^8 inputs); r0 runs the cases and collects the results
	r := &Run{Tier: "quick"}
	plain := []Cfg{{HdrCap: -1, ValCap: -1}, {HdrCap: 1, ValCap: 1, Offs: 3, Junk: "a"}}
	var msgs [][]byte
	for _, m := range longMsgs {
		msgs = append(msgs, []byte(m))
	}
	for _, m := range c12ArrMsgs {
		msgs = append(msgs, []byte(m))
	}
	for _, m := range substMsgs {
		msgs = append(msgs, []byte(m))
	}
	var mcf []Cfg
	for _, f := range []uint{0, uint(sipsp.SIPMsgSkipBodyF), uint(sipsp.SIPMsgCLenReqF)} {
		mcf = append(mcf, Cfg{Flags: f, HdrCap: -1, ValCap: -1}, Cfg{Flags: f, HdrCap: 2, ValCap: 1, Offs: 3, Junk: "crlf"})
	}
	bigExtensions(r0, msgDrv, mcf, msgs, mor)
	bigExtensions(r0, flineDrv, plain, few(flineSpaces(r), 0), or)
	hv := []Cfg{{HdrCap: -1, ValCap: -1, WithVals: true}, {HdrCap: -1, ValCap: -1}, {HdrCap: 1, ValCap: 1, WithVals: true, Offs: 3, Junk: "a"}}
	bigExtensions(r0, hdrLineDrv, hv, few(hdrSpaces(r), 1), or)
	bigExtensions(r0, hdrsDrv, hv, few(hdrSpaces(r), 1), or)
	for _, h := range []sipsp.HdrT{sipsp.HdrFrom, sipsp.HdrContact} {
		bigExtensions(r0, nameAddrDrv, []Cfg{{HdrType: int(h), HdrCap: -1, ValCap: -1}}, few(nameAddrSpaces(r), 6), or)
	}
	bigExtensions(r0, contactsDrv, []Cfg{{HdrCap: -1, ValCap: -1}, {HdrCap: -1, ValCap: 1}}, few(listSpaces(r), 0), or)
	bigExtensions(r0, paisDrv, []Cfg{{HdrCap: -1, ValCap: -1}}, few(listSpaces(r), 0), or)
	bigExtensions(r0, cseqDrv, plain, few(numSpaces(r), 0), or)
	bigExtensions(r0, callidDrv, plain, few(numSpaces(r), 0), or)
	bigExtensions(r0, uintDrv, plain, few(numSpaces(r), 0), or)
	var tcf []Cfg
	for _, f := range tokFlagSets(r) {
		if f&uint(sipsp.POptInputEndF) == 0 {
			tcf = append(tcf, Cfg{Flags: f, HdrCap: -1, ValCap: -1})
		}
	}
	bigExtensions(r0, tokParamDrv, tcf, few(tokSpaces(r), 1), or)
	ucf := []Cfg{{Flags: 0, ValCap: 2, HdrCap: -1}, {Flags: uint(sipsp.POptTokSpTermF), ValCap: -1, HdrCap: -1}}
	bigExtensions(r0, uriParamsDrv, ucf, few(uriListSpaces(r, false), 0), or)
	bigExtensions(r0, uriHdrsDrv, ucf, few(uriListSpaces(r, true), 0), or)
	bigExtensions(r0, skipQuotedDrv, plain, few(skipQuotedSpaces(r), 0), or)
}
