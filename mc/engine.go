package main

// E1: prefix-trie explorer with schedule merging (DESIGN §2.2).

import (
	"bytes"
	"fmt"
	"reflect"
	"runtime"
	"strings"
	"sync"
	"unsafe"

	"github.com/intuitivelabs/sipsp"
)

// Cfg is the configuration of one exploration (constant over a schedule).
type Cfg struct {
	Offs     int    `json:"offs"`                // start offset of the text in the buffer
	Junk     string `json:"junk,omitempty"`      // kind of junk preceding the text
	Flags    uint   `json:"flags"`               // flags given to every call
	HdrCap   int    `json:"hdr_cap"`             // caller header array capacity, -1 = none (built-in / nil)
	ValCap   int    `json:"val_cap"`             // caller contact/param array capacity, -1 = none
	HdrType  int    `json:"hdr_type,omitempty"`  // header kind for name-addr drivers
	WithVals bool   `json:"with_vals,omitempty"` // header drivers: pass a PHdrVals (false: nil)
	EndMode  bool   `json:"end_mode,omitempty"`  // Flags contain a documented end-of-input mode on EVERY call: exempt from C03
}

func (c Cfg) String() string {
	return fmt.Sprintf("offs=%d flags=%#x hcap=%d vcap=%d ht=%d wv=%v", c.Offs, c.Flags, c.HdrCap, c.ValCap, c.HdrType, c.WithVals)
}

const (
	errPanic sipsp.ErrorHdr = 0xdead // pseudo verdict: the call panicked
)

func suspended(e sipsp.ErrorHdr) bool { return e == sipsp.ErrHdrMoreBytes }

func successLike(e sipsp.ErrorHdr) bool {
	switch e {
	case sipsp.ErrHdrOk, sipsp.ErrHdrEOH, sipsp.ErrHdrMoreValues, sipsp.ErrHdrEmpty:
		return true
	}
	return false
}

func errName(e sipsp.ErrorHdr) string {
	if e == errPanic {
		return "PANIC"
	}
	if int(e) > int(sipsp.ErrHdrTooManyVals) {
		return fmt.Sprintf("err%d", e)
	}
	return strings.ReplaceAll(e.Error(), " ", "_")
}

// Driver adapts one exported entry point.
type Driver[T any] struct {
	Name string
	New  func(cfg *Cfg) *T
	// Step performs ONE call of the real function (the caller wraps it in recover).
	Step func(o *T, buf []byte, offs int, cfg *Cfg) (int, sipsp.ErrorHdr)
	// Lens gives the stored-prefix length of exported slice fields (path -> n).
	Lens func(o *T) map[string]int
	// Extra appends accessor results (methods a caller would use) to the observation.
	Extra func(o *T, buf []byte, sb *strings.Builder)
	// Post: extra sanity probe run after every call under the C04 oracle (returns "" or a panic/defect text).
	Post func(o *T, buf []byte) string
	plan *plan
}

func (d *Driver[T]) init() {
	if d.plan == nil {
		var z T
		d.plan = planOf(reflect.TypeOf(z))
	}
}

func (d *Driver[T]) key(o *T, buf []byte, dst []byte) []byte {
	return d.plan.key(unsafe.Pointer(o), buf, dst)
}

func (d *Driver[T]) copyInto(dst, src *T, store *[][]byte) {
	*dst = *src
	d.plan.fixSlices(unsafe.Pointer(dst), unsafe.Pointer(src), store)
}

func (d *Driver[T]) clone(src *T) *T {
	dst := new(T)
	var store [][]byte
	d.copyInto(dst, src, &store)
	return dst
}

func (d *Driver[T]) lens(o *T) map[string]int {
	if d.Lens != nil {
		return d.Lens(o)
	}
	return nil
}

// obs renders what a caller can read back.
func (d *Driver[T]) obs(o *T, buf []byte) string {
	var sb strings.Builder
	func() {
		defer func() {
			if r := recover(); r != nil {
				fmt.Fprintf(&sb, "OBS-PANIC: %v\n", r)
			}
		}()
		dumpExported(&sb, reflect.ValueOf(o).Elem(), "", buf, d.lens(o))
		if d.Extra != nil {
			d.Extra(o, buf, &sb)
		}
	}()
	return sb.String()
}

// obsKey is a fast binary equivalent of obs: equal obsKeys <=> equal obs.
func (d *Driver[T]) obsKey(o *T, buf []byte, dst []byte) (out []byte) {
	defer func() {
		if r := recover(); r != nil {
			out = append(dst, []byte(fmt.Sprintf("OBS-PANIC: %v", r))...)
		}
	}()
	dst = d.plan.expKey(unsafe.Pointer(o), buf, d.lens(o), dst)
	if d.Extra != nil {
		var sb strings.Builder
		d.Extra(o, buf, &sb)
		dst = append(dst, sb.String()...)
	}
	return dst
}

// safeStep runs one call under recover.
func (d *Driver[T]) safeStep(o *T, buf []byte, offs int, cfg *Cfg) (n int, e sipsp.ErrorHdr, pmsg string) {
	defer func() {
		if r := recover(); r != nil {
			n, e, pmsg = offs, errPanic, fmt.Sprint(r)
		}
	}()
	n, e = d.Step(o, buf, offs, cfg)
	return
}

// firstDiff returns the first differing line of two observations.
func firstDiff(a, b string) string {
	la, lb := strings.Split(a, "\n"), strings.Split(b, "\n")
	for i := 0; i < len(la) && i < len(lb); i++ {
		if la[i] != lb[i] {
			return fmt.Sprintf("one-shot %s | resumed %s", la[i], lb[i])
		}
	}
	return fmt.Sprintf("lengths differ %d/%d", len(la), len(lb))
}

func diffField(a, b string) string {
	la, lb := strings.Split(a, "\n"), strings.Split(b, "\n")
	for i := 0; i < len(la) && i < len(lb); i++ {
		if la[i] != lb[i] {
			f := la[i]
			if j := strings.IndexByte(f, '='); j >= 0 {
				f = f[:j]
			}
			// normalise indices
			return stripIdx(f)
		}
	}
	return "shape"
}

func stripIdx(s string) string {
	var sb strings.Builder
	in := false
	for _, c := range s {
		if c == '[' {
			in = true
			sb.WriteString("[]")
			continue
		}
		if c == ']' {
			in = false
			continue
		}
		if !in {
			sb.WriteRune(c)
		}
	}
	return sb.String()
}

// ---- trie generators -------------------------------------------------------

// Frag is one edge label of a fragment trie: its bytes become one trie node each.
type Frag struct {
	B    []byte
	Next any  // generator state after this fragment
	Skip bool // replayed context only: the nodes of this fragment are neither counted nor checked here
	// Coarse: one trie node at the end of the fragment only (chunk boundaries between fragments, not inside): for
	// inputs of tens of kilobytes
	Coarse bool
}

// TrieGen defines the input space.
type TrieGen interface {
	Root() any
	Expand(st any, depth int) []Frag
}

// byteTrie: all strings of length <= L over Sigma.
type byteTrie struct {
	Sigma []byte
	L     int
}

func (b byteTrie) Root() any { return 0 }
func (b byteTrie) Expand(st any, depth int) []Frag {
	d := st.(int)
	if d >= b.L {
		return nil
	}
	fr := make([]Frag, len(b.Sigma))
	for i, c := range b.Sigma {
		fr[i] = Frag{B: []byte{c}, Next: d + 1}
	}
	return fr
}

// prefixedTrie hangs a generator below a fixed chain of bytes.
type prefixedTrie struct {
	Prefix []byte
	Sub    TrieGen
}

type prefState struct {
	in  bool
	sub any
}

func (p prefixedTrie) Root() any { return prefState{} }
func (p prefixedTrie) Expand(st any, depth int) []Frag {
	s := st.(prefState)
	if !s.in {
		return []Frag{{B: p.Prefix, Next: prefState{true, p.Sub.Root()}}}
	}
	fr := p.Sub.Expand(s.sub, depth)
	out := make([]Frag, len(fr))
	for i, f := range fr {
		out[i] = Frag{B: f.B, Next: prefState{true, f.Next}, Skip: f.Skip, Coarse: f.Coarse}
	}
	return out
}

// menuTrie: sequence of stages; stage i offers Menus[i] (a fixed number of stages).
type menuTrie struct {
	Stages [][][]byte
}

func (m menuTrie) Root() any { return 0 }
func (m menuTrie) Expand(st any, depth int) []Frag {
	i := st.(int)
	if i >= len(m.Stages) {
		return nil
	}
	fr := make([]Frag, len(m.Stages[i]))
	for k, b := range m.Stages[i] {
		fr[k] = Frag{B: b, Next: i + 1}
	}
	return fr
}

// unionTrie offers the roots of several generators side by side.
type unionTrie struct{ Subs []TrieGen }

type unionState struct {
	idx int
	sub any
}

func (u unionTrie) Root() any { return unionState{-1, nil} }
func (u unionTrie) Expand(st any, depth int) []Frag {
	s := st.(unionState)
	var out []Frag
	if s.idx < 0 {
		for i, g := range u.Subs {
			for _, f := range g.Expand(g.Root(), depth) {
				out = append(out, Frag{B: f.B, Next: unionState{i, f.Next}, Skip: f.Skip, Coarse: f.Coarse})
			}
		}
		return out
	}
	for _, f := range u.Subs[s.idx].Expand(s.sub, depth) {
		out = append(out, Frag{B: f.B, Next: unionState{s.idx, f.Next}, Skip: f.Skip, Coarse: f.Coarse})
	}
	return out
}

// ---- explorer --------------------------------------------------------------

type suspState[T any] struct {
	o      *T
	next   int // continuation offset
	key    []byte
	parent *suspState[T]
	cut    int // prefix length (absolute buffer length) of the call that produced it
}

func (s *suspState[T]) cuts() []int {
	var c []int
	for p := s; p != nil; p = p.parent {
		c = append(c, p.cut)
	}
	for i, j := 0, len(c)-1; i < j; i, j = i+1, j-1 {
		c[i], c[j] = c[j], c[i]
	}
	return c
}

type nodeRec[T any] struct {
	fresh    *T
	fn       int
	fe       sipsp.ErrorHdr
	fkey     []byte
	fobs     string // lazily computed
	fokey    []byte
	hasFokey bool
	store    [][]byte
	susp     []*suspState[T]
	// definitive-since bookkeeping for pruning
	defDepth int // number of consecutive ancestors (incl. this) with definitive Fresh
}

// Oracles selects what the exploration checks.
type Oracles struct {
	Schedule  bool // C01/C02: every transition equals Fresh(w)
	Extension bool // C03: definitive Fresh(p) is stable under extension
	Sanity    bool // C04: no panic, offsets sane, fields dereferenceable
	// ExemptObs filters observation lines that are exempt (C03 body extent without Content-Length).
	ExemptObs func(line string) bool
	// ExemptOffset: the returned offset is exempt too (same case).
	ExemptCase func(o any, flags uint, text []byte) bool
}

type Explorer[T any] struct {
	Run  *Run
	Prop string
	Drv  *Driver[T]
	Gen  TrieGen
	Cfg  Cfg
	Or   Oracles
	// BeyondErr / BeyondOk: how many bytes to keep extending below a node whose Fresh verdict is a
	// definitive error / success (C03 and late transitions); -1 = unlimited.
	BeyondErr int
	BeyondOk  int
	// FinalFlags: extra flag sets tried as a *final* call at every node (e.g. no-more-data).
	FinalFlags []uint
	MaxSusp    int      // cap on |Susp(w)| (0 = 64)
	Probes     [][]byte // C03: continuations appended below every node with a definitive verdict
	SplitDepth int      // job granularity: 1 or 2 fragment levels
	// Realloc: every node's calls (the one-shot call and all resumed calls) get the current prefix in a buffer of
	// their own - exactly as long as the prefix (cap == len) and in another backing array than the calls one byte
	// earlier: a receive buffer that is re-allocated while it grows. A parser that keeps a reference to the buffer of
	// an earlier call then reads a stale array or runs over its capacity.
	Realloc bool
}

// getNode returns a recycled node record for stack position i with a pristine object in it
// (deep copy of a never-used template: no allocation on the hot path).
func (w *worker[T]) getNode(i int) *nodeRec[T] {
	if w.tmpl == nil {
		w.tmpl = w.e.Drv.New(&w.e.Cfg)
	}
	for len(w.pool) <= i {
		w.pool = append(w.pool, &nodeRec[T]{fresh: new(T)})
	}
	nd := w.pool[i]
	w.e.Drv.copyInto(nd.fresh, w.tmpl, &nd.store)
	nd.fobs, nd.fokey, nd.susp, nd.defDepth = "", nd.fokey[:0], nd.susp[:0], 0
	nd.hasFokey = false
	return nd
}

type worker[T any] struct {
	hb      *hbSlot
	tmpl    *T
	pool    []*nodeRec[T]
	e       *Explorer[T]
	st      *Stats
	buf     []byte
	stack   []*nodeRec[T]
	scratch *T
	store   [][]byte
	kbuf    []byte
	okbuf   []byte
	okbuf2  []byte
	ffObj   *T
	ffStore [][]byte
	ffKey   []byte
	kbuf2   []byte
	pbuf    []byte
	ptmp    *T
	ptmp2   *T
	pstore  [][]byte
	pstore2 [][]byte
	count   bool
	hasSusp bool
	ffresh  []*T
	arena   [2][]byte
}

func junkBytes(kind string, n int) []byte {
	b := make([]byte, n)
	for i := range b {
		switch kind {
		case "", "nul":
			b[i] = 0
		case "a":
			b[i] = 'a'
		case "ff":
			b[i] = 0xff
		case "crlf":
			if i%2 == 0 {
				b[i] = '\r'
			} else {
				b[i] = '\n'
			}
		case "colon":
			if i%2 == 0 {
				b[i] = ':'
			} else {
				b[i] = ' '
			}
		default:
			b[i] = kind[i%len(kind)]
		}
	}
	if kind == "crlf" && n > 0 {
		b[n-1] = '\n'
		if n > 1 {
			b[n-2] = '\r'
		}
	}
	return b
}

type trieJob struct {
	path []Frag
	own  int // index of first owned fragment in path
}

func (e *Explorer[T]) jobs() []trieJob {
	e.Drv.init()
	if e.MaxSusp == 0 {
		e.MaxSusp = 64
	}
	root := e.Gen.Root()
	top := e.Gen.Expand(root, 0)
	var jobs []trieJob
	if e.SplitDepth >= 2 {
		for _, f := range top {
			sub := e.Gen.Expand(f.Next, len(f.B))
			if len(sub) == 0 {
				jobs = append(jobs, trieJob{[]Frag{f}, 0})
				continue
			}
			for i, g := range sub {
				own := 1
				if i == 0 {
					own = 0
				}
				jobs = append(jobs, trieJob{[]Frag{f, g}, own})
			}
		}
	} else {
		for _, f := range top {
			jobs = append(jobs, trieJob{[]Frag{f}, 0})
		}
	}
	return jobs
}

func (e *Explorer[T]) newWorker(st *Stats, hb *hbSlot) *worker[T] {
	w := &worker[T]{e: e, st: st, scratch: new(T), hb: hb}
	w.buf = make([]byte, 0, e.Cfg.Offs+4096)
	w.buf = append(w.buf, junkBytes(e.Cfg.Junk, e.Cfg.Offs)...)
	return w
}

// exploreMany runs several explorers (typically one per configuration) on one shared worker pool.
func exploreMany[T any](r *Run, es []*Explorer[T]) {
	type item struct {
		e *Explorer[T]
		j trieJob
	}
	var items []item
	for _, e := range es {
		for _, j := range e.jobs() {
			items = append(items, item{e, j})
		}
	}
	ch := make(chan item, 64)
	var wg sync.WaitGroup
	for i := 0; i < r.Workers; i++ {
		wg.Add(1)
		go func() {
			defer wg.Done()
			st := newStats()
			hb := newHB()
			hb.st = st
			// one worker (buffers, pooled node records) per explorer and goroutine, reused across its jobs
			ws := map[*Explorer[T]]*worker[T]{}
			for it := range ch {
				if r.expired() {
					st.Exhaustive = false
					continue
				}
				w := ws[it.e]
				if w == nil {
					if len(ws) > 8 {
						ws = map[*Explorer[T]]*worker[T]{} // explorers are scheduled in order: old ones are finished
					}
					w = it.e.newWorker(st, hb)
					ws[it.e] = w
				}
				w.runJob(it.j.path, it.j.own)
			}
			r.St.merge(st)
		}()
	}
	for _, it := range items {
		ch <- it
	}
	close(ch)
	wg.Wait()
	if r.expired() {
		r.St.mu.Lock()
		r.St.Exhaustive = false
		r.St.CapsHit = append(r.St.CapsHit, "deadline")
		r.St.mu.Unlock()
	}
}

func (e *Explorer[T]) run() { exploreMany(e.Run, []*Explorer[T]{e}) }

func (w *worker[T]) runJob(path []Frag, own int) {
	base := w.e.Cfg.Offs
	w.buf = w.buf[:base]
	w.stack = w.stack[:0]
	depth := 0
	alive := true
	for i, f := range path {
		w.count = i >= own && !f.Skip
		if f.Coarse {
			w.buf = append(w.buf, f.B...)
			depth += len(f.B)
			if !w.visit(depth) {
				alive = false
			}
			continue
		}
		for _, c := range f.B {
			w.buf = append(w.buf, c)
			depth++
			if !w.visit(depth) {
				alive = false
				if w.e.Run.expired() {
					return
				}
			}
		}
	}
	w.count = true
	if alive {
		w.dfs(path[len(path)-1].Next, depth)
	}
}

func (w *worker[T]) dfs(st any, depth int) {
	if w.e.Run.expired() {
		w.st.Exhaustive = false
		return
	}
	frags := w.e.Gen.Expand(st, depth)
	if len(frags) == 0 {
		// maximal input
		w.st.Evals++
		if w.hasSuspOnPath() {
			w.st.Nontrivial++
		}
		if len(w.st.Samples) < 4 {
			w.st.sample(fmt.Sprintf("%s %s input=%q", w.e.Drv.Name, w.e.Cfg, w.buf[w.e.Cfg.Offs:]))
		}
		return
	}
	sl := len(w.stack)
	bl := len(w.buf)
	for _, f := range frags {
		ok := true
		d := depth
		w.count = !f.Skip
		if f.Coarse {
			w.buf = append(w.buf, f.B...)
			d += len(f.B)
			ok = w.visit(d)
		}
		for _, c := range f.B {
			if f.Coarse {
				break
			}
			w.buf = append(w.buf, c)
			d++
			if !w.visit(d) {
				ok = false
				break
			}
		}
		w.count = true
		if ok {
			w.dfs(f.Next, d)
		} else {
			w.st.Evals++
			if w.hasSuspOnPath() {
				w.st.Nontrivial++
			}
		}
		w.stack = w.stack[:sl]
		w.buf = w.buf[:bl]
	}
}

// hasSuspOnPath: non-trivial rule = the path had at least one suspension and a definitive verdict.
func (w *worker[T]) hasSuspOnPath() bool {
	s, d := false, false
	for _, n := range w.stack {
		if suspended(n.fe) {
			s = true
		} else {
			d = true
		}
	}
	return s && d
}

func verdictStr(n int, e sipsp.ErrorHdr) string { return fmt.Sprintf("(%d,%s)", n, errName(e)) }

func (w *worker[T]) vio(prop, rule, class, detail string, s *suspState[T], blen int, cfg *Cfg) {
	if prop == "" {
		prop = w.e.Prop
	}
	if prop != w.e.Prop {
		return // each check reports its own property only
	}
	var cuts []int
	if s != nil {
		cuts = s.cuts()
	}
	cuts = append(cuts, blen)
	base := w.e.Cfg.Offs
	// cuts are absolute buffer lengths; store relative to text start
	rel := make([]int, len(cuts))
	for i, c := range cuts {
		rel[i] = c - base
	}
	c := mkCase("schedule", w.e.Drv.Name, cfg, w.buf[base:], rel)
	if cfg.Flags != w.e.Cfg.Flags {
		// found on a final call with extra flags: the earlier calls of the schedule ran with the explorer's flags
		c.Extra = map[string]any{"mid_flags": w.e.Cfg.Flags}
	}
	w.e.Run.Col.add(&Violation{Property: prop, Site: w.e.Drv.Name, Rule: rule, Class: class, Detail: detail, Case: c})
}

// sanity: C04 checks after one call.
func (w *worker[T]) sanity(o *T, offs, n int, e sipsp.ErrorHdr, pmsg string, blen int, s *suspState[T], cfg *Cfg) {
	if e == errPanic {
		w.vio("C04", "no-panic", "panic:"+panicClass(pmsg), "panic: "+pmsg, s, blen, cfg)
		return
	}
	if n < 0 || n > blen {
		w.vio("C04", "offset-in-buffer", errName(e), fmt.Sprintf("returned offset %d outside [0,%d]", n, blen), s, blen, cfg)
	} else if n < offs && (successLike(e) || suspended(e)) {
		w.vio("C04", "offset-monotone", errName(e), fmt.Sprintf("returned offset %d < passed offset %d with verdict %s", n, offs, errName(e)), s, blen, cfg)
	}
	if bad := w.e.Drv.plan.pfieldsBad(unsafe.Pointer(o), blen, w.e.Drv.lens(o)); bad != "" {
		w.vio("C04", "field-dereferenceable", stripIdx(strings.SplitN(bad, "=", 2)[0]), bad+" after verdict "+errName(e), s, blen, cfg)
	}
	if w.e.Drv.Post != nil {
		if m := w.e.Drv.Post(o, w.buf[:blen]); m != "" {
			w.vio("C04", "derived-call-no-panic", panicClass(m), "after verdict "+errName(e)+": "+m, s, blen, cfg)
		}
	}
}

func panicClass(m string) string {
	if len(m) > 40 {
		m = m[:40]
	}
	// strip numbers
	var sb strings.Builder
	for _, c := range m {
		if c >= '0' && c <= '9' {
			continue
		}
		sb.WriteRune(c)
	}
	return sb.String()
}

func exemptFilter(obs string, f func(string) bool) string {
	if f == nil {
		return obs
	}
	var sb strings.Builder
	for _, l := range strings.Split(obs, "\n") {
		if !f(l) {
			sb.WriteString(l)
			sb.WriteByte('\n')
		}
	}
	return sb.String()
}

// visit processes the trie node whose prefix is w.buf; returns false when the subtree is pruned.
func (w *worker[T]) visit(depth int) bool {
	if w.hb != nil {
		w.hb.begin(func() *Violation {
			base := w.e.Cfg.Offs
			in := append([]byte(nil), w.buf[base:]...)
			cs := mkCase("hang", w.e.Drv.Name, &w.e.Cfg, in, nil)
			return &Violation{Property: "C04", Site: w.e.Drv.Name, Detail: fmt.Sprintf("exploring prefix %q (one-shot call or a resumed call on it)", in), Case: cs}
		})
		defer w.hb.end()
	}
	e := w.e
	if e.Run.expired() {
		// the budget is honoured at every node (a long single path with many distinct suspended states would
		// otherwise run on for hours): stop here, the run reports exhaustive:false
		w.st.Exhaustive = false
		return false
	}
	d := e.Drv
	cfg := &e.Cfg
	base := cfg.Offs
	buf := w.buf
	blen := len(buf)
	nd := w.getNode(len(w.stack))
	if e.Realloc {
		ar := &w.arena[len(w.stack)&1]
		if cap(*ar) < blen {
			*ar = make([]byte, 2*blen+64)
		}
		cb := (*ar)[:blen:blen]
		copy(cb, buf)
		buf = cb
	}
	var pmsg string
	nd.fn, nd.fe, pmsg = d.safeStep(nd.fresh, buf, base, cfg)
	nd.fkey = d.key(nd.fresh, buf, nd.fkey[:0])
	cnt := w.count
	if cnt {
		w.st.States++
		w.st.outcome(errName(nd.fe))
	}
	if e.Or.Sanity && cnt {
		w.sanity(nd.fresh, base, nd.fn, nd.fe, pmsg, blen, nil, cfg)
	}
	var parent *nodeRec[T]
	if len(w.stack) > 0 {
		parent = w.stack[len(w.stack)-1]
	}
	// ---- C03: extension stability
	if parent != nil && !suspended(parent.fe) && parent.fe != errPanic {
		nd.defDepth = parent.defDepth + 1
		if e.Or.Extension && cnt {
			w.st.Transitions++
			w.checkExtension(parent, nd, blen)
		}
	} else if !suspended(nd.fe) {
		nd.defDepth = 0
	}
	if e.Or.Extension && cnt && len(e.Probes) > 0 && !suspended(nd.fe) && nd.fe != errPanic {
		w.runProbes(nd, blen)
	}
	// ---- C01/C02: transitions from every suspended ancestor state
	if e.Or.Schedule || e.Or.Sanity {
		for ai, a := range w.stack {
			if ai&63 == 63 && e.Run.expired() {
				w.st.Exhaustive = false
				break
			}
			for _, s := range a.susp {
				d.copyInto(w.scratch, s.o, &w.store)
				n2, e2, pm2 := d.safeStep(w.scratch, buf, s.next, cfg)
				if cnt {
					w.st.Transitions++
				}
				if e.Or.Sanity && cnt {
					w.sanity(w.scratch, s.next, n2, e2, pm2, blen, s, cfg)
				}
				if e.Or.Schedule && cnt && (n2 != nd.fn || e2 != nd.fe) {
					det := fmt.Sprintf("one-shot %s resumed %s", verdictStr(nd.fn-base, nd.fe), verdictStr(n2-base, e2))
					if e2 == errPanic {
						det += " panic: " + pm2
					}
					w.vio("", "same-verdict-and-offset", errName(nd.fe)+"/"+errName(e2), det, s, blen, cfg)
				}
				w.kbuf = d.key(w.scratch, buf, w.kbuf[:0])
				if bytes.Equal(w.kbuf, nd.fkey) {
					continue // merged with the one-shot state
				}
				if suspended(e2) {
					if !suspended(nd.fe) {
						continue // verdict mismatch already reported; do not expand
					}
					dup := false
					for _, x := range nd.susp {
						if x.next == n2 && bytes.Equal(x.key, w.kbuf) {
							dup = true
							break
						}
					}
					if !dup {
						if len(nd.susp) >= e.MaxSusp {
							w.st.Exhaustive = false
							w.st.CapsHit = append(w.st.CapsHit, "max_susp")
							continue
						}
						o := d.clone(w.scratch)
						nd.susp = append(nd.susp, &suspState[T]{o: o, next: n2, key: append([]byte(nil), w.kbuf...), parent: s, cut: blen})
						if cnt {
							w.st.States++
							w.st.addExtra("extra_suspended_states", 1)
						}
					}
					continue
				}
				if e2 == errPanic || nd.fe == errPanic {
					continue
				}
				// definitive with a different full state: compare what the caller can read
				if e.Or.Schedule && cnt && n2 == nd.fn && e2 == nd.fe {
					if !nd.hasFokey {
						nd.fokey = d.obsKey(nd.fresh, buf, nd.fokey[:0])
						nd.hasFokey = true
					}
					w.okbuf = d.obsKey(w.scratch, buf, w.okbuf[:0])
					if cnt {
						w.st.addExtra("observation_compares", 1)
					}
					if bytes.Equal(w.okbuf, nd.fokey) {
						continue
					}
					if nd.fobs == "" {
						nd.fobs = d.obs(nd.fresh, buf)
					}
					o2 := d.obs(w.scratch, buf)
					if o2 != nd.fobs {
						kind := "success"
						if !successLike(e2) {
							kind = "error"
						}
						w.vio("", "same-values-when-definitive:"+kind, diffField(nd.fobs, o2), firstDiff(nd.fobs, o2), s, blen, cfg)
					}
				}
			}
		}
		// final-call flag variants (e.g. no-more-data raised on the last call only)
		for _, ff := range e.FinalFlags {
			fc := *cfg
			fc.Flags = cfg.Flags | ff
			if w.ffObj == nil {
				w.ffObj = new(T)
			}
			if w.tmpl == nil {
				w.tmpl = d.New(cfg)
			}
			fo := w.ffObj
			d.copyInto(fo, w.tmpl, &w.ffStore) // New() does not depend on the flags
			fn, fe, _ := d.safeStep(fo, buf, base, &fc)
			var fobs string
			hasFok := false
			w.ffKey = d.key(fo, buf, w.ffKey[:0])
			fkey := w.ffKey
			// also from the states suspended on THIS prefix: a last call that brings no new byte, only the flag
			var own *nodeRec[T]
			if suspended(nd.fe) || len(nd.susp) > 0 {
				own = &nodeRec[T]{susp: nd.susp}
				if suspended(nd.fe) {
					own.susp = append(append([]*suspState[T](nil), nd.susp...), &suspState[T]{o: nd.fresh, next: nd.fn, key: nd.fkey, cut: blen})
				}
			}
			for ai := 0; ai <= len(w.stack); ai++ {
				if ai&63 == 63 && e.Run.expired() {
					w.st.Exhaustive = false
					break
				}
				var a *nodeRec[T]
				if ai < len(w.stack) {
					a = w.stack[ai]
				} else if a = own; a == nil {
					break
				}
				for _, s := range a.susp {
					d.copyInto(w.scratch, s.o, &w.store)
					n2, e2, pm2 := d.safeStep(w.scratch, buf, s.next, &fc)
					if cnt {
						w.st.Transitions++
					}
					if e.Or.Sanity && cnt {
						w.sanity(w.scratch, s.next, n2, e2, pm2, blen, s, &fc)
					}
					if !e.Or.Schedule || !cnt {
						continue
					}
					if n2 != fn || e2 != fe {
						cc := fc
						w.vioFinal("same-verdict-and-offset", errName(fe)+"/"+errName(e2),
							fmt.Sprintf("final flags %#x: one-shot %s resumed %s", ff, verdictStr(fn-base, fe), verdictStr(n2-base, e2)), append(s.cuts(), blen), &cc, cfg.Flags)
						continue
					}
					w.kbuf = d.key(w.scratch, buf, w.kbuf[:0])
					if bytes.Equal(w.kbuf, fkey) || suspended(e2) || e2 == errPanic {
						continue
					}
					// (cheap binary key of the caller-visible values first: states that differ in internal fields only)
					if !hasFok {
						w.okbuf2 = d.obsKey(fo, buf, w.okbuf2[:0])
						hasFok = true
					}
					w.okbuf = d.obsKey(w.scratch, buf, w.okbuf[:0])
					if bytes.Equal(w.okbuf, w.okbuf2) {
						continue
					}
					if fobs == "" {
						fobs = d.obs(fo, buf)
					}
					if o2 := d.obs(w.scratch, buf); o2 != fobs {
						cc := fc
						w.vioFinal("same-values-when-definitive:final", diffField(fobs, o2), firstDiff(fobs, o2), append(s.cuts(), blen), &cc, cfg.Flags)
					}
				}
			}
		}
	}
	if suspended(nd.fe) {
		nd.susp = append(nd.susp, &suspState[T]{o: nd.fresh, next: nd.fn, key: nd.fkey, cut: blen})
	}
	if cnt {
		w.st.maxExtra("max_susp_per_prefix", int64(len(nd.susp)))
	}
	w.stack = append(w.stack, nd)
	// pruning below definitive verdicts
	if !suspended(nd.fe) {
		lim := e.BeyondOk
		if !successLike(nd.fe) {
			lim = e.BeyondErr
		}
		if lim >= 0 && nd.defDepth >= lim {
			return false
		}
	}
	return true
}

func (w *worker[T]) vioFinal(rule, class, detail string, cuts []int, fc *Cfg, midFlags uint) {
	base := w.e.Cfg.Offs
	rel := make([]int, len(cuts))
	for i, c := range cuts {
		rel[i] = c - base
	}
	c := mkCase("schedule", w.e.Drv.Name, fc, w.buf[base:], rel)
	c.Extra = map[string]any{"mid_flags": midFlags}
	w.e.Run.Col.add(&Violation{Property: w.e.Prop, Site: w.e.Drv.Name, Rule: rule, Class: class, Detail: detail, Case: c})
}

func (w *worker[T]) checkExtension(parent, nd *nodeRec[T], blen int) {
	w.cmpExt(parent.fresh, parent.fn, parent.fe, parent.fkey, nd.fresh, nd.fn, nd.fe, nd.fkey, w.buf, blen-1, blen)
}

// cmpExt: the definitive result (po,pn,pe) obtained on buf[:plen] must be unchanged on buf[:clen].
func (w *worker[T]) cmpExt(po *T, pn int, pe sipsp.ErrorHdr, pkey []byte, co *T, cn int, ce sipsp.ErrorHdr, ckey []byte, buf []byte, plen, clen int) {
	e := w.e
	d := e.Drv
	cfg := &e.Cfg
	base := cfg.Offs
	exempt := false
	if e.Or.ExemptCase != nil {
		exempt = successLike(pe) && e.Or.ExemptCase(po, cfg.Flags, buf[base:plen])
	}
	if pe != ce || (!exempt && pn != cn) {
		c := mkCase("extension", d.Name, cfg, buf[base:clen], []int{plen - base, clen - base})
		e.Run.Col.add(&Violation{Property: e.Prop, Site: d.Name, Rule: "verdict-stable-under-extension", Class: errName(pe) + "->" + errName(ce),
			Detail: fmt.Sprintf("on %d bytes %s, on %d bytes %s", plen-base, verdictStr(pn-base, pe), clen-base, verdictStr(cn-base, ce)), Case: c})
		return
	}
	if !successLike(ce) {
		return
	}
	if bytes.Equal(pkey, ckey) {
		return
	}
	if !exempt {
		w.okbuf = d.obsKey(po, buf, w.okbuf[:0])
		w.okbuf2 = d.obsKey(co, buf, w.okbuf2[:0])
		if bytes.Equal(w.okbuf, w.okbuf2) {
			return
		}
	}
	pobs := d.obs(po, buf)
	nobs := d.obs(co, buf)
	if exempt {
		pobs, nobs = exemptFilter(pobs, e.Or.ExemptObs), exemptFilter(nobs, e.Or.ExemptObs)
	}
	if pobs != nobs {
		c := mkCase("extension", d.Name, cfg, buf[base:clen], []int{plen - base, clen - base})
		e.Run.Col.add(&Violation{Property: e.Prop, Site: d.Name, Rule: "values-stable-under-extension", Class: diffField(pobs, nobs),
			Detail: firstDiff(pobs, nobs), Case: c})
	}
}

// probes: adversarial continuations appended below a node with a definitive verdict (C03).
func (w *worker[T]) runProbes(nd *nodeRec[T], blen int) {
	e := w.e
	d := e.Drv
	cfg := &e.Cfg
	if w.ptmp == nil {
		w.ptmp = new(T)
	}
	hasBytes := false
	for i := range d.plan.slices {
		if d.plan.slices[i].isBytes {
			hasBytes = true
		}
	}
	if w.tmpl == nil {
		w.tmpl = d.New(cfg)
	}
	for _, p := range e.Probes {
		w.pbuf = append(append(w.pbuf[:0], w.buf[:blen]...), p...)
		ext := w.pbuf
		d.copyInto(w.ptmp, w.tmpl, &w.pstore)
		n2, e2, _ := d.safeStep(w.ptmp, ext, cfg.Offs, cfg)
		w.st.Transitions++
		w.kbuf2 = d.key(w.ptmp, ext, w.kbuf2[:0])
		if !hasBytes {
			// no []byte views in the object: the node's own one-shot result is position-comparable
			w.cmpExt(nd.fresh, nd.fn, nd.fe, nd.fkey, w.ptmp, n2, e2, w.kbuf2, ext, blen, len(ext))
			continue
		}
		// re-run the short parse on the same backing array so []byte positions compare
		if w.ptmp2 == nil {
			w.ptmp2 = new(T)
		}
		d.copyInto(w.ptmp2, w.tmpl, &w.pstore2)
		n1, e1, _ := d.safeStep(w.ptmp2, ext[:blen], cfg.Offs, cfg)
		if suspended(e1) || e1 == errPanic {
			continue
		}
		w.kbuf = d.key(w.ptmp2, ext, w.kbuf[:0])
		w.cmpExt(w.ptmp2, n1, e1, w.kbuf, w.ptmp, n2, e2, w.kbuf2, ext, blen, len(ext))
	}
}

// replaySchedule re-executes one input under one schedule with no explorer: the plain replay.
// It checks the same oracles as visit along that single schedule.
func replaySchedule[T any](prop string, d *Driver[T], c *Case, or Oracles) []*Violation {
	d.init()
	cfg := *c.Cfg
	in := c.input()
	base := cfg.Offs
	buf := append(junkBytes(cfg.Junk, base), in...)
	var out []*Violation
	add := func(p, rule, class, detail string) {
		if p == "" {
			p = prop
		}
		out = append(out, &Violation{Property: p, Site: d.Name, Rule: rule, Class: class, Detail: detail, Case: c})
	}
	midCfg := cfg
	if mf, ok := c.Extra["mid_flags"]; ok {
		midCfg.Flags = anyUint(mf)
	}
	o := d.New(&cfg)
	offs := base
	for i, cut := range c.Cuts {
		// every call gets a buffer of its own, exactly as long as the prefix (see Explorer.Realloc)
		w := make([]byte, base+cut)
		copy(w, buf)
		useCfg := &midCfg
		if i == len(c.Cuts)-1 {
			useCfg = &cfg
		}
		n, e, pm := d.safeStep(o, w, offs, useCfg)
		f := d.New(useCfg)
		fn, fe, fpm := d.safeStep(f, w, base, useCfg)
		if or.Sanity {
			if e == errPanic {
				add("C04", "no-panic", "panic:"+panicClass(pm), "panic: "+pm)
			} else {
				if n < 0 || n > len(w) {
					add("C04", "offset-in-buffer", errName(e), "")
				} else if n < offs && (successLike(e) || suspended(e)) {
					add("C04", "offset-monotone", errName(e), "")
				}
				if bad := d.plan.pfieldsBad(unsafe.Pointer(o), len(w), d.lens(o)); bad != "" {
					add("C04", "field-dereferenceable", stripIdx(strings.SplitN(bad, "=", 2)[0]), bad)
				}
				if d.Post != nil {
					if m := d.Post(o, w); m != "" {
						add("C04", "derived-call-no-panic", panicClass(m), m)
					}
				}
			}
			if i == 0 && fe == errPanic {
				_ = fpm
			}
		}
		if or.Schedule {
			if n != fn || e != fe {
				add("", "same-verdict-and-offset", errName(fe)+"/"+errName(e), fmt.Sprintf("call %d on %d bytes: one-shot %s resumed %s", i+1, cut, verdictStr(fn-base, fe), verdictStr(n-base, e)))
			} else if !suspended(e) && e != errPanic {
				fo, ro := d.obs(f, w), d.obs(o, w)
				if fo != ro {
					kind := "success"
					if !successLike(e) {
						kind = "error"
					}
					if i == len(c.Cuts)-1 && c.Extra["mid_flags"] != nil {
						kind = "final"
					}
					add("", "same-values-when-definitive:"+kind, diffField(fo, ro), firstDiff(fo, ro))
				}
			}
		}
		if !suspended(e) {
			break
		}
		offs = n
	}
	return out
}

func replayExtension[T any](prop string, d *Driver[T], c *Case, or Oracles) []*Violation {
	d.init()
	cfg := *c.Cfg
	in := c.input()
	base := cfg.Offs
	buf := append(junkBytes(cfg.Junk, base), in...)
	var out []*Violation
	p, w := buf[:base+c.Cuts[0]], buf[:base+c.Cuts[1]]
	po, wo := d.New(&cfg), d.New(&cfg)
	pn, pe, _ := d.safeStep(po, p, base, &cfg)
	wn, we, _ := d.safeStep(wo, w, base, &cfg)
	if suspended(pe) {
		return nil
	}
	pobs := d.obs(po, buf)
	exempt := or.ExemptCase != nil && successLike(pe) && or.ExemptCase(po, cfg.Flags, p[base:])
	if pe != we || (!exempt && pn != wn) {
		out = append(out, &Violation{Property: prop, Site: d.Name, Rule: "verdict-stable-under-extension", Class: errName(pe) + "->" + errName(we),
			Detail: fmt.Sprintf("%s vs %s", verdictStr(pn-base, pe), verdictStr(wn-base, we)), Case: c})
		return out
	}
	if !successLike(pe) {
		return nil
	}
	wobs := d.obs(wo, buf)
	if exempt {
		pobs, wobs = exemptFilter(pobs, or.ExemptObs), exemptFilter(wobs, or.ExemptObs)
	}
	if pobs != wobs {
		out = append(out, &Violation{Property: prop, Site: d.Name, Rule: "values-stable-under-extension", Class: diffField(pobs, wobs), Detail: firstDiff(pobs, wobs), Case: c})
	}
	return out
}

func defaultWorkers() int {
	n := runtime.NumCPU()
	if n > 16 {
		n = 16
	}
	return n
}

func anyUint(v any) uint {
	switch x := v.(type) {
	case float64:
		return uint(x)
	case uint:
		return x
	case int:
		return uint(x)
	}
	return 0
}
