package main

import (
	"fmt"
	"reflect"
	"sort"
	"strings"
	"time"

	"github.com/intuitivelabs/sipsp"
)

type uriSpec struct {
	Scheme, User, Pass, Host, Port string
	Params                         []string // "name=value" or "name"
	Hdrs                           []string
}

func (u uriSpec) String() string {
	s := u.Scheme + ":"
	if u.User != "" {
		s += u.User
		if u.Pass != "" {
			s += ":" + u.Pass
		}
		s += "@"
	}
	s += u.Host
	if u.Port != "" {
		s += ":" + u.Port
	}
	for _, p := range u.Params {
		s += ";" + p
	}
	for i, h := range u.Hdrs {
		if i == 0 {
			s += "?"
		} else {
			s += "&"
		}
		s += h
	}
	return s
}

// classKey: canonical form under the invariances the property lists (case of scheme, host,
// parameter names/values, header NAMES; order of parameters and headers).
func (u uriSpec) classKey() string {
	ps := make([]string, len(u.Params))
	for i, p := range u.Params {
		ps[i] = strings.ToLower(p)
	}
	sort.Strings(ps)
	hs := make([]string, len(u.Hdrs))
	for i, h := range u.Hdrs {
		nv := strings.SplitN(h, "=", 2)
		hs[i] = strings.ToLower(nv[0]) + "=" + nv[1]
	}
	sort.Strings(hs)
	return strings.ToLower(u.Scheme) + "|" + u.User + "|" + u.Pass + "|" + strings.ToLower(u.Host) + "|" + u.Port + "|" + strings.Join(ps, ";") + "|" + strings.Join(hs, "&")
}

func pname(p string) string { return strings.ToLower(strings.SplitN(p, "=", 2)[0]) }

func noDupNames(l []string) bool {
	seen := map[string]bool{}
	for _, p := range l {
		if seen[pname(p)] {
			return false
		}
		seen[pname(p)] = true
	}
	return true
}

func subsetsOrdered(menu []string, max int) [][]string {
	var out [][]string
	var rec func(cur []string)
	rec = func(cur []string) {
		if noDupNames(cur) {
			out = append(out, append([]string(nil), cur...))
		} else {
			return
		}
		if len(cur) == max {
			return
		}
		for _, m := range menu {
			used := false
			for _, c := range cur {
				if c == m {
					used = true
				}
			}
			if !used {
				rec(append(cur, m))
			}
		}
	}
	rec(nil)
	return out
}

// c15Family builds n URIs: base URIs picked by a deterministic stride over the component product,
// each followed by re-cased / permuted variants of itself (same class) and near variants (different class).
func c15Family(n int) []uriSpec {
	schemes := []string{"sip", "sips"}
	users := []string{"", "a", "A", "b"}
	passes := []string{"", "p", "P"}
	hosts := []string{"h", "g", "[::1]", "h.example", "[2001:db8::a]", "3com.example"}
	ports := []string{"", "5060", "5061"}
	pmenu := []string{"transport=udp", "transport=tcp", "user=phone", "ttl=1", "maddr=m", "method=INVITE", "lr", "x=1", "x=2", "y"}
	hmenu := []string{"a=1", "b=2", "a=2", "c=3"}
	plists := subsetsOrdered(pmenu, 3)
	hlists := subsetsOrdered(hmenu, 2)
	var bases []uriSpec
	total := len(schemes) * len(users) * len(passes) * len(hosts) * len(ports) * len(plists) * len(hlists)
	want := n / 8
	stride := total/want + 1
	for idx := 0; idx < total; idx += stride {
		i := idx
		pick := func(m int) int { r := i % m; i /= m; return r }
		u := uriSpec{}
		u.Hdrs = hlists[pick(len(hlists))]
		u.Params = plists[pick(len(plists))]
		u.Port = ports[pick(len(ports))]
		u.Host = hosts[pick(len(hosts))]
		u.Pass = passes[pick(len(passes))]
		u.User = users[pick(len(users))]
		u.Scheme = schemes[pick(len(schemes))]
		if u.User == "" {
			u.Pass = ""
		}
		bases = append(bases, u)
	}
	var special []uriSpec
	// user parts that contain ';' and '?' (they belong to the user when an '@' follows): with and without real
	// parameters / headers behind the host, so that text inside the user is never taken for a parameter
	for ui, us := range []string{"bob;maddr=m?x", "u;ttl=1", "c?a=1;lr", "d;user=phone?a=1&b=2"} {
		for pi, pl := range [][]string{nil, {"maddr=m"}, {"lr"}, {"ttl=1"}, {"user=phone", "x=1"}} {
			for hi, hl := range [][]string{nil, {"a=1"}} {
				if (ui+pi+hi)%2 == 1 && n < 1000 {
					continue
				}
				special = append(special, uriSpec{Scheme: "sip", User: us, Host: "h.example", Port: []string{"", "5060"}[pi%2], Params: pl, Hdrs: hl})
			}
		}
	}
	// '?' inside header names / values (legal there), in every position of the header list
	for _, hl := range [][]string{{"a=x?y", "b=1"}, {"b=1", "a=x?y"}, {"q?=1", "b=1", "c=2"}, {"?a=1", "b=2"}, {"a=1"}} {
		special = append(special, uriSpec{Scheme: "sip", User: "u", Host: "h.example", Hdrs: hl}, uriSpec{Scheme: "sip", Host: "h.example", Params: []string{"lr"}, Hdrs: hl})
	}
	// escapes in user and password: the bytes after a %HH escape compare like all others (case-sensitively)
	for _, us := range []string{"%41lice", "%41Lice", "%41lIce", "al%69ce", "al%69cE"} {
		for _, pw := range []string{"", "p%40ss", "p%40sS", "p%40Ss"} {
			special = append(special, uriSpec{Scheme: "sip", User: us, Pass: pw, Host: "h.example"})
		}
	}
	var fam []uriSpec
	up := func(l []string, names, vals bool) []string {
		o := make([]string, len(l))
		for i, p := range l {
			nv := strings.SplitN(p, "=", 2)
			if names {
				nv[0] = strings.ToUpper(nv[0])
			}
			if vals && len(nv) > 1 {
				nv[1] = strings.ToUpper(nv[1])
			}
			o[i] = strings.Join(nv, "=")
		}
		return o
	}
	rev := func(l []string) []string {
		o := make([]string, len(l))
		for i := range l {
			o[len(l)-1-i] = l[i]
		}
		return o
	}
	variants := func(bases []uriSpec) {
		for bi, b := range bases {
			fam = append(fam, b)
			v1 := b // re-cased scheme, host, param names+values, header names; reversed order
			v1.Scheme = strings.ToUpper(b.Scheme)
			v1.Host = strings.ToUpper(b.Host)
			v1.Params = rev(up(b.Params, true, true))
			v1.Hdrs = rev(up(b.Hdrs, true, false))
			fam = append(fam, v1)
			v2 := b // near variant: differs in exactly one component
			switch bi % 6 {
			case 0:
				if v2.User != "" {
					v2.User = strings.ToUpper(v2.User) + "x"
				} else {
					v2.User = "u"
				}
			case 1:
				if strings.HasPrefix(v2.Host, "[") {
					v2.Host = "[::2]"
				} else {
					v2.Host = v2.Host + "2"
				}
			case 2:
				v2.Params = append(append([]string(nil), v2.Params...), "zz=9")
			case 3:
				if v2.Port == "" {
					v2.Port = "5062"
				} else {
					v2.Port = ""
				}
			case 4:
				if len(v2.Hdrs) > 0 {
					h := strings.SplitN(v2.Hdrs[0], "=", 2)
					v2.Hdrs = append([]string{h[0] + "=" + h[1] + "X"}, v2.Hdrs[1:]...)
				} else {
					v2.Hdrs = []string{"q=1"}
				}
			case 5:
				if v2.Pass != "" {
					v2.Pass = strings.ToUpper(v2.Pass) + "q"
				} else if v2.User != "" {
					v2.Pass = "pw"
				} else {
					v2.Scheme = map[string]string{"sip": "sips", "sips": "sip"}[v2.Scheme]
				}
			}
			fam = append(fam, v2)
			v3 := b // only parameter order and name case
			v3.Params = rev(up(b.Params, true, false))
			fam = append(fam, v3)
			v4 := b // no parameters at all
			v4.Params = nil
			v5 := b // exactly one parameter: one of user/ttl/method/maddr, or an ordinary one
			v5.Params = []string{[]string{"user=phone", "ttl=1", "method=INVITE", "maddr=m", "x=1", "lr"}[bi%6]}
			v6 := b // no headers / one header
			v6.Hdrs = nil
			v7 := b
			v7.Hdrs = []string{"a=1"}
			fam = append(fam, v4, v5, v6, v7)
		}
	}
	variants(bases)
	if len(fam) > n {
		fam = fam[:n]
	}
	variants(special)
	// long lists: 33, 64 and 100 parameters / headers (the comparison works on fixed-size internal arrays)
	for _, cnt := range []int{33, 64, 100, 101, 130} {
		var ps, hs []string
		for k := 0; k < cnt; k++ {
			ps = append(ps, fmt.Sprintf("p%d=%d", k, k))
			hs = append(hs, fmt.Sprintf("h%d=%d", k, k))
		}
		a := uriSpec{Scheme: "sip", User: "u", Host: "h", Params: ps}
		b := a // differs in the value of the LAST parameter only
		b.Params = append(append([]string(nil), ps[:cnt-1]...), fmt.Sprintf("p%d=x", cnt-1))
		ar := a // same URI, reversed order and upper-case names
		ar.Params = rev(up(ps, true, false))
		br := b
		br.Params = rev(up(b.Params, true, false))
		c := uriSpec{Scheme: "sip", User: "u", Host: "h", Hdrs: hs}
		d := c
		d.Hdrs = append(append([]string(nil), hs[:cnt-1]...), fmt.Sprintf("h%d=x", cnt-1))
		cr := c
		cr.Hdrs = rev(up(hs, true, false))
		dr := d
		dr.Hdrs = rev(up(d.Hdrs, true, false))
		fam = append(fam, a, ar, b, br, c, cr, d, dr)
	}
	return fam
}

type c15Pair struct {
	A, B string
}

// evalC15Pair checks the pairwise laws on two URI strings for all 64 flag values
// (symmetry, monotonicity, short-consistency, entry-point agreement, returned parsed URIs).
func evalC15Pair(a, b []byte) (vs []*Violation, res [64]bool) {
	add := func(site, rule, class, detail string) {
		c := mkCase("C15", site, nil, a, nil)
		c.Extra = map[string]any{"other": string(b)}
		vs = append(vs, &Violation{Property: "C15", Site: site, Rule: rule, Class: class, Detail: detail, Case: c})
	}
	defer recoverTo4("URICmp", add)
	var ua, ub sipsp.PsipURI
	ea, _ := sipsp.ParseURI(a, &ua)
	eb, _ := sipsp.ParseURI(b, &ub)
	if ea != 0 || eb != 0 {
		add("ParseURI", "family-uri-accepted", "reject", fmt.Sprintf("%v %v", ea, eb))
		return
	}
	for f := 0; f < 64; f++ {
		fl := sipsp.URICmpFlags(f)
		ab := sipsp.URICmp(&ua, a, &ub, b, fl)
		ba := sipsp.URICmp(&ub, b, &ua, a, fl)
		res[f] = ab
		if ab != ba {
			add("URICmp", "symmetric", fmt.Sprintf("flags=%#x", f&^0), fmt.Sprintf("cmp(a,b)=%v cmp(b,a)=%v flags %#x", ab, ba, f))
		}
		sh := sipsp.URICmpShort(&ua, a, &ub, b, fl)
		if ab && !sh {
			add("URICmpShort", "short-consistent", "equal-but-short-differs", fmt.Sprintf("flags %#x", f))
		}
		if fl&(sipsp.URICmpSkipParams|sipsp.URICmpSkipHeaders) == sipsp.URICmpSkipParams|sipsp.URICmpSkipHeaders && ab != sh {
			add("URICmpShort", "short-consistent", "skip-params-headers", fmt.Sprintf("flags %#x cmp=%v short=%v", f, ab, sh))
		}
	}
	// monotonicity: f subset of g => cmp_f -> cmp_g
	for f := 0; f < 64; f++ {
		if !res[f] {
			continue
		}
		for bit := 0; bit < 6; bit++ {
			g := f | 1<<bit
			if !res[g] {
				add("URICmp", "skip-flags-monotone", fmt.Sprintf("bit%d", bit), fmt.Sprintf("equal under %#x but different under %#x", f, g))
			}
		}
	}
	// entry points agree, handed-back URIs are the separately parsed ones
	for _, f := range []int{0, 63, 16, 32, 1, 4} {
		fl := sipsp.URICmpFlags(f)
		// the structures handed in have been used before (a caller reuses them without Reset)
		var r1, r2 sipsp.PsipURI
		sipsp.ParseURI([]byte("sips:x:y@z:9;p=1?h=2"), &r1)
		r2 = r1
		ok, e, w := sipsp.URIParseCmp(a, b, fl, &r1, &r2)
		ok2, e2, w2 := sipsp.URIRawCmp(a, b, fl)
		if ok != res[f] || e != 0 || ok2 != res[f] || e2 != 0 || w != 0 || w2 != 0 {
			add("URIParseCmp", "entry-points-agree", "result", fmt.Sprintf("flags %#x: URICmp=%v URIParseCmp=%v,%v URIRawCmp=%v,%v", f, res[f], ok, e, ok2, e2))
		}
		if !reflect.DeepEqual(r1, ua) {
			add("URIParseCmp", "handed-back-uris", "r1", fmt.Sprintf("r1=%+v want %+v", r1, ua))
		}
		if !reflect.DeepEqual(r2, ub) {
			add("URIParseCmp", "handed-back-uris", "r2", fmt.Sprintf("r2=%+v want %+v", r2, ub))
		}
		// only one of the two result structures supplied
		var s1, s2 sipsp.PsipURI
		sipsp.ParseURI([]byte("sips:x:y@z:9;p=1?h=2"), &s1)
		s2 = s1
		ok3, e3, _ := sipsp.URIParseCmp(a, b, fl, &s1, nil)
		ok4, e4, _ := sipsp.URIParseCmp(a, b, fl, nil, &s2)
		if ok3 != res[f] || e3 != 0 || ok4 != res[f] || e4 != 0 {
			add("URIParseCmp", "entry-points-agree", "result/one-result-structure", fmt.Sprintf("flags %#x: URICmp=%v, with r1 only %v,%v, with r2 only %v,%v", f, res[f], ok3, e3, ok4, e4))
		}
		if !reflect.DeepEqual(s1, ua) {
			add("URIParseCmp", "handed-back-uris", "r1-only", fmt.Sprintf("r1=%+v want %+v", s1, ua))
		}
		if !reflect.DeepEqual(s2, ub) {
			add("URIParseCmp", "handed-back-uris", "r2-only", fmt.Sprintf("r2=%+v want %+v", s2, ub))
		}
	}
	// parameter / header list comparisons are symmetric
	pa, pb := ua.Params.Get(a), ub.Params.Get(b)
	if x, _ := sipsp.URIParamsEq(pa, 0, pb, 0); true {
		if y, _ := sipsp.URIParamsEq(pb, 0, pa, 0); x != y {
			add("URIParamsEq", "symmetric", "params", fmt.Sprintf("%q vs %q: %v / %v", pa, pb, x, y))
		}
	}
	ha, hb := ua.Headers.Get(a), ub.Headers.Get(b)
	if x, _ := sipsp.URIHdrsEq(ha, 0, hb, 0); true {
		if y, _ := sipsp.URIHdrsEq(hb, 0, ha, 0); x != y {
			add("URIHdrsEq", "symmetric", "headers", fmt.Sprintf("%q vs %q: %v / %v", ha, hb, x, y))
		}
	}
	return
}

var bmaskNames = []string{"user", "ttl", "method", "maddr"}

// c15Alias: URIParseCmp / URIRawCmp on (a, b) and (b, a) where a and b are slices of one backing array must give what
// they give on private copies of the same texts, including the handed-back URIs.
func c15Alias(a, b []byte, prefixOf string) (vs []*Violation) {
	pa, pb := append([]byte(nil), a...), append([]byte(nil), b...)
	for _, fl := range []sipsp.URICmpFlags{0, 63, 16, 32} {
		for _, sw := range []bool{false, true} {
			x, y, px, py := a, b, pa, pb
			if sw {
				x, y, px, py = b, a, pb, pa
			}
			var r1, r2, q1, q2 sipsp.PsipURI
			ok, e, w := sipsp.URIParseCmp(x, y, fl, &r1, &r2)
			pok, pe, pw := sipsp.URIParseCmp(px, py, fl, &q1, &q2)
			rok, re, rw := sipsp.URIRawCmp(x, y, fl)
			if ok != pok || e != pe || w != pw || rok != pok || re != pe || rw != pw || !reflect.DeepEqual(r1, q1) || !reflect.DeepEqual(r2, q2) {
				cs := mkCase("C15alias", "URIParseCmp", &Cfg{Flags: uint(fl)}, a, nil)
				cs.Extra = map[string]any{"b": string(b), "prefix": prefixOf != "", "swapped": sw}
				vs = append(vs, &Violation{Property: "C15", Site: "URIParseCmp", Rule: "entry-points-agree", Class: fmt.Sprintf("aliased-arguments/prefix=%v", prefixOf != ""),
					Detail: fmt.Sprintf("%q vs %q flags %#x swapped=%v: aliased (%v,%v,%v) raw (%v,%v,%v) private copies (%v,%v,%v); r1=%+v/%+v r2=%+v/%+v", x, y, fl, sw, ok, e, w, rok, re, rw, pok, pe, pw, r1, q1, r2, q2), Case: cs})
				return
			}
		}
	}
	return
}

func checkC15(r *Run) {
	r.Assume = []string{"URI family generated from component menus, parameter/header lists free of duplicate names (as the property requires)",
		"class = canonical form under the listed invariances (case of scheme/host/param names+values/header names, order); header VALUE case is not an invariance the property lists"}
	n := r.pick(500, 2000)
	fam := c15Family(n)
	strs := make([][]byte, len(fam))
	keys := make([]string, len(fam))
	rep := map[string]int{}
	for i, u := range fam {
		strs[i] = []byte(u.String())
		keys[i] = u.classKey()
		if _, ok := rep[keys[i]]; !ok {
			rep[keys[i]] = i
		}
	}
	N := len(fam)
	// result matrix under every flag value (bitset per pair)
	mat := make([][][64]bool, N)
	for i := range mat {
		mat[i] = make([][64]bool, N)
	}
	parallelFor(r, N, func(c *enumCtx, i int) {
		for j := 0; j < N; j++ {
			vs, res := evalC15Pair(strs[i], strs[j])
			mat[i][j] = res
			c.st.Evals++
			c.st.Outcomes[fmt.Sprintf("equal=%v equal-ignoring-all=%v", res[0], res[63])]++
			c.st.Transitions += 64 * 3
			if keys[i] == keys[j] {
				c.st.Nontrivial++
			}
			for _, v := range vs {
				r.Col.add(v)
			}
		}
		c.st.States++
	})
	add := func(i, j int, rule, class, detail string) {
		c := mkCase("C15laws", "URICmp", nil, strs[i], nil)
		c.Extra = map[string]any{"other": string(strs[j]), "rule": rule, "class": class, "rep_a": string(strs[rep[keys[i]]]), "rep_b": string(strs[rep[keys[j]]])}
		r.Col.add(&Violation{Property: "C15", Site: "URICmp", Rule: rule, Class: class, Detail: detail, Case: c})
	}
	hasB := func(u uriSpec, nm string) bool {
		for _, p := range u.Params {
			if pname(p) == nm {
				return true
			}
		}
		return false
	}
	for i := 0; i < N; i++ {
		for f := 0; f < 64; f++ {
			if !mat[i][i][f] {
				add(i, i, "reflexive", fmt.Sprintf("flags=%#x", f), "URI differs from itself")
				break
			}
		}
		for j := 0; j < N; j++ {
			ri, rj := rep[keys[i]], rep[keys[j]]
			if mat[i][j] != mat[ri][rj] {
				add(i, j, "invariant-under-case-and-order", "class-member-vs-representative", fmt.Sprintf("cmp(%s,%s)=%v but cmp(%s,%s)=%v (flag 0)", strs[i], strs[j], mat[i][j][0], strs[ri], strs[rj], mat[ri][rj][0]))
			}
			if keys[i] == keys[j] && !mat[i][j][0] {
				add(i, j, "invariant-under-case-and-order", "same-class-different", fmt.Sprintf("%s vs %s", strs[i], strs[j]))
			}
			// user/pass case-sensitive: same except user (or pass) case => different unless skipped
			a, b := fam[i], fam[j]
			if a.User != b.User && mat[i][j][0] {
				add(i, j, "user-case-sensitive", "user", fmt.Sprintf("%s == %s", strs[i], strs[j]))
			}
			if a.Pass != b.Pass && mat[i][j][0] {
				add(i, j, "password-case-sensitive", "pass", fmt.Sprintf("%s == %s", strs[i], strs[j]))
			}
			for _, nm := range bmaskNames {
				if hasB(a, nm) != hasB(b, nm) && mat[i][j][0] {
					add(i, j, "user-ttl-method-maddr-in-both-or-neither", nm, fmt.Sprintf("%s == %s", strs[i], strs[j]))
				}
			}
		}
	}
	// argument aliasing: the two URIs handed to the raw / parse-and-compare entry points share one backing array
	// (a URI and its own prefixes; two URIs laid out in one message buffer): same results as with private copies
	parallelFor(r, N, func(c *enumCtx, i int) {
		a := strs[i]
		for k := 4; k <= len(a); k++ {
			if k < len(a) && strings.IndexByte(";?:@&=", a[k]) < 0 && k != len(a)-1 {
				continue // prefixes ending before a delimiter (and the one-byte-short prefix) are the interesting ones
			}
			for _, v := range c15Alias(a, a[:k], string(a[:k])) {
				r.Col.add(v)
			}
			c.st.Transitions += 4
		}
		b := strs[(i*7+3)%N]
		buf := append(append(append([]byte("To: <"), a...), ">, <"...), b...)
		buf = append(buf, ">\r\n"...)
		for _, v := range c15Alias(buf[5:5+len(a)], buf[5+len(a)+4:5+len(a)+4+len(b)], "") {
			r.Col.add(v)
		}
		c.st.Evals++
	})
	r.St.sample(string(strs[0]))
	r.St.sample(string(strs[len(strs)/2]))
	r.Bounds["family_size"] = N
	r.Bounds["classes"] = len(rep)
	r.Bounds["flags"] = 64
}

func init() {
	replayers["C15"] = func(prop string, c *Case) []*Violation {
		o, _ := c.Extra["other"].(string)
		vs, _ := evalC15Pair(c.input(), []byte(o))
		return vs
	}
	replayers["C15alias"] = func(prop string, c *Case) []*Violation {
		a := c.input()
		bs, _ := c.Extra["b"].(string)
		if pre, _ := c.Extra["prefix"].(bool); pre {
			return c15Alias(a, a[:len(bs)], bs)
		}
		buf := append(append(append([]byte(nil), a...), "...."...), bs...)
		return c15Alias(buf[:len(a)], buf[len(a)+4:], "")
	}
	replayers["C15laws"] = func(prop string, c *Case) []*Violation {
		// the generator facts (same class / differing component) are recorded in the case; re-evaluate the law on the real code
		s := func(k string) []byte { v, _ := c.Extra[k].(string); return []byte(v) }
		a, b, ra, rb := c.input(), s("other"), s("rep_a"), s("rep_b")
		rule, _ := c.Extra["rule"].(string)
		class, _ := c.Extra["class"].(string)
		_, m := evalC15Pair(a, b)
		_, mr := evalC15Pair(ra, rb)
		bad := false
		switch rule {
		case "reflexive":
			for f := 0; f < 64; f++ {
				if !m[f] {
					bad = true
				}
			}
		case "invariant-under-case-and-order":
			if class == "same-class-different" {
				bad = !m[0]
			} else {
				bad = m != mr
			}
		default: // components that must make the URIs differ
			bad = m[0]
		}
		if bad {
			return []*Violation{{Property: prop, Site: "URICmp", Rule: rule, Class: class, Case: c}}
		}
		return nil
	}
	register("C15", &checkDef{fn: checkC15,
		rule:        "E4: all ordered pairs of a generated URI family (bases by stride over the component product + re-cased/permuted variants + one-component-different variants) x all 64 skip-flag values on the real URICmp/URICmpShort/URIParseCmp/URIRawCmp/URIParamsEq/URIHdrsEq; laws: reflexive, symmetric, class invariance (result matrix constant on classes), user/pass case-sensitive, bmask params, flag monotonicity, entry points agree incl. handed-back URIs; non-trivial = pairs in the same class",
		quickBudget: 120 * time.Second, thorBudget: 20 * time.Minute})
}
