package main

import (
	"bytes"
	"fmt"
	"regexp"
	"strconv"
	"strings"
	"time"

	"github.com/intuitivelabs/sipsp"
)

var (
	pfRe    = regexp.MustCompile(`\{(\d+)[ ,](\d+)\}`)
	bytesRe = regexp.MustCompile(`\.(Buf|RawMsg)=bytes\(pos=(-?\d+),len=(\d+)\)`)
	eoffRe  = regexp.MustCompile(`(ErrOffs|EOffs)=(\d+)`)
)

// normShift rewrites an observation so that positions are relative to the text start k:
// non-empty fields are shifted by -k, empty fields lose their position ("shifted or unset").
func normShift(obs string, k int) (string, string) {
	bad := ""
	obs = pfRe.ReplaceAllStringFunc(obs, func(m string) string {
		sm := pfRe.FindStringSubmatch(m)
		o, _ := strconv.Atoi(sm[1])
		l, _ := strconv.Atoi(sm[2])
		if l == 0 {
			return "{-,0}"
		}
		if o < k {
			bad = fmt.Sprintf("non-empty field %s lies before the text start %d", m, k)
		}
		return fmt.Sprintf("{%d,%d}", o-k, l)
	})
	obs = bytesRe.ReplaceAllStringFunc(obs, func(m string) string {
		sm := bytesRe.FindStringSubmatch(m)
		p, _ := strconv.Atoi(sm[2])
		l, _ := strconv.Atoi(sm[3])
		if sm[1] == "Buf" {
			if l > 0 {
				l -= k
			}
			return fmt.Sprintf(".Buf=bytes(pos=%d,len=%d)", p, l)
		}
		if p > 0 || l > 0 {
			p -= k
		}
		return fmt.Sprintf(".RawMsg=bytes(pos=%d,len=%d)", p, l)
	})
	obs = eoffRe.ReplaceAllStringFunc(obs, func(m string) string {
		sm := eoffRe.FindStringSubmatch(m)
		o, _ := strconv.Atoi(sm[2])
		if o != 0 {
			o -= k
		}
		return fmt.Sprintf("%s=%d", sm[1], o)
	})
	return obs, bad
}

type shiftBase struct {
	n   int
	e   sipsp.ErrorHdr
	obs string
}

// evalShift: parse `in` one-shot at offset k (junk before it) and compare with the parse at offset 0.
func evalShift[T any](d *Driver[T], cfg Cfg, in []byte, base *shiftBase, k int, junk string, big []byte) (vs []*Violation) {
	d.init()
	add := func(rule, class, detail string) {
		cc := cfg
		cc.Offs, cc.Junk = k, junk
		c := mkCase("C11", d.Name, &cc, in, nil)
		vs = append(vs, &Violation{Property: "C11", Site: d.Name, Rule: rule, Class: class, Detail: detail, Case: c})
	}
	if base.obs == "" {
		c0 := cfg
		c0.Offs = 0
		o := d.New(&c0)
		n, e, _ := d.safeStep(o, in, 0, &c0)
		ob, _ := normShift(d.obs(o, in), 0)
		*base = shiftBase{n, e, ob}
	}
	ck := cfg
	ck.Offs, ck.Junk = k, junk
	var buf []byte
	if big != nil {
		buf = big[:k+len(in)]
		copy(buf[k:], in)
	} else {
		buf = append(junkBytes(junk, k), in...)
	}
	o := d.New(&ck)
	n, e, pm := d.safeStep(o, buf, k, &ck)
	if e != base.e {
		add("same-verdict", errName(base.e)+"->"+errName(e), fmt.Sprintf("at 0: %s at %d: %s %s", verdictStr(base.n, base.e), k, verdictStr(n-k, e), pm))
		return
	}
	if n-k != base.n {
		add("offset-shifted-by-k", errName(e), fmt.Sprintf("at 0: %d at %d: %d (relative %d)", base.n, k, n, n-k))
	}
	ob, bad := normShift(d.obs(o, buf), k)
	if bad != "" {
		add("fields-shifted-by-k", "before-start", bad)
	} else if ob != base.obs {
		add("fields-shifted-by-k", diffField(base.obs, ob), firstDiff(base.obs, ob))
	}
	return
}

// collectInputs enumerates the inputs of a trie (every fragment boundary, i.e. inner prefixes too);
// when there are more than maxN, every ceil(n/maxN)-th is kept (deterministic stride over the whole trie).
var collectNotes []string

func collectInputs(g TrieGen, maxN int) [][]byte {
	var out [][]byte
	var rec func(st any, cur []byte, depth int)
	rec = func(st any, cur []byte, depth int) {
		if len(cur) > 0 {
			out = append(out, append([]byte(nil), cur...))
		}
		for _, f := range g.Expand(st, depth) {
			rec(f.Next, append(cur, f.B...), depth+len(f.B))
		}
	}
	rec(g.Root(), nil, 0)
	if len(out) > maxN {
		step := (len(out) + maxN - 1) / maxN
		collectNotes = append(collectNotes, fmt.Sprintf("%T: kept every %d-th of %d inputs", g, step, len(out)))
		var o2 [][]byte
		for i := 0; i < len(out); i += step {
			o2 = append(o2, out[i])
		}
		out = o2
	}
	return out
}

var c11Junks = []string{"nul", "a", "crlf", "colon", "ff", "\r\n\r\n", "\xef\xbb\xbf", "\xff\xfe", "SIP/2.0 200 OK\r\n", "INVITE sip:a SIP/2.0\r\nl: 0\r\n\r\n"}

func c11Offsets(l int) []int {
	return []int{1, 2, 3, 255, 256, 257, 32767, 32768, 65535 - l - 1, 65535 - l}
}

func shiftSpace[T any](r *Run, d *Driver[T], name string, inputs [][]byte, cfgs []Cfg, everyK int) {
	parallelFor(r, len(inputs), func(c *enumCtx, i int) {
		if c.any == nil {
			c.any = make([]byte, 65536)
		}
		big := c.any.([]byte)
		in := inputs[i]
		for ci, cfg := range cfgs {
			base := &shiftBase{}
			jk := c11Junks[(i+ci)%len(c11Junks)]
			copy(big, junkBytes(jk, 300))
			// the big buffer keeps whatever earlier inputs left beyond 300: arbitrary junk, which is the point
			ks := c11Offsets(len(in))
			if everyK > 0 && i%everyK == 0 && !r.quick() {
				ks = nil
				for k := 1; k+len(in) <= 65535; k++ {
					ks = append(ks, k)
				}
			}
			for _, k := range ks {
				if k < 1 || k+len(in) > 65535 {
					continue
				}
				var vs []*Violation
				if k <= 300 {
					vs = evalShift(d, cfg, in, base, k, jk, nil)
				} else {
					// fill junk right before the text so that the preceding bytes are of the chosen kind
					j := junkBytes(jk, 64)
					copy(big[k-64:k], j)
					vs = evalShift(d, cfg, in, base, k, jk, big)
					for _, v := range vs {
						v.Case.Cfg.Junk = jk // replay rebuilds a buffer of this junk kind
					}
				}
				c.st.Transitions++
				for _, v := range vs {
					r.Col.add(v)
				}
			}
			c.st.Evals++
			c.st.States++
			if !suspended(base.e) {
				c.st.Nontrivial++
			}
			c.st.outcome(errName(base.e))
		}
	})
	r.noteSpace(fmt.Sprintf("%s %s inputs=%d cfgs=%d", d.Name, name, len(inputs), len(cfgs)), 0, 0, 0)
}

func checkC11(r *Run) {
	r.Assume = []string{"offsets k in {1,2,3,255,256,257,32767,32768,65535-len-1,65535-len} (thorough: every k for every 64th input); junk kinds NUL, 'a', CRLF pairs, ': ', 0xff, CRLFCRLF",
		"comparison: one-shot at offset 0 vs one-shot at offset k; non-empty fields shifted by exactly k, empty fields shifted or unset, every other value equal",
		"parsed URIs: AdjustOffs to every listed offset k with span = URI length (the full span/offset product is C18); ParseURI itself always parses from offset 0 of the slice it is given"}
	maxIn := r.pick(6000, 60000)
	every := 64
	plain := []Cfg{{HdrCap: -1, ValCap: -1}}
	// messages
	var msgs [][]byte
	for _, m := range longMsgs {
		msgs = append(msgs, []byte(m))
	}
	// texts that begin with bytes a tolerant reader might strip (byte order marks, NULs, blanks): same treatment at
	// every offset
	for _, m := range longMsgs[:4] {
		for _, pre := range []string{"\xef\xbb\xbf", "\xff\xfe", "\xfe\xff", "\x00", " ", "\t", "\x1a"} {
			msgs = append(msgs, []byte(pre+m))
		}
	}
	msgs = append(msgs, collectInputs(msgTrie{strs(flineMenu), strs(hdrLineMenuFull), 1, strs(blankMenu), strs(bodyMenu)}, maxIn)...)
	var mcf []Cfg
	for f := uint(0); f < 8; f++ {
		mcf = append(mcf, Cfg{Flags: f, HdrCap: -1, ValCap: -1})
	}
	mcf = append(mcf, Cfg{HdrCap: 2, ValCap: 1}, Cfg{HdrCap: 0, ValCap: 0, Flags: 1})
	shiftSpace(r, msgDrv, "messages", msgs, mcf, every)
	// prefixes of long messages (suspended / failed states too)
	var pref [][]byte
	for _, m := range longMsgs[:4] {
		for i := 1; i < len(m); i += 3 {
			pref = append(pref, []byte(m[:i]))
		}
	}
	shiftSpace(r, msgDrv, "message-prefixes", pref, mcf[:2], every)
	// sub-parsers: inputs of their C02 spaces (two levels below the byte-trie bound)
	sub := func(sps []space) [][]byte {
		var out [][]byte
		for _, sp := range sps {
			g := sp.gen
			if bt, ok := g.(byteTrie); ok {
				bt.L -= 2
				g = bt
			}
			if st, ok := g.(seqTrie); ok && st.K > 3 {
				st.K = 3
				g = st
			}
			out = append(out, collectInputs(g, maxIn)...)
		}
		return out
	}
	for _, h := range []sipsp.HdrT{sipsp.HdrFrom, sipsp.HdrContact, sipsp.HdrPAI, sipsp.HdrRoute} {
		shiftSpace(r, nameAddrDrv, "name-addr/"+h.String(), sub(nameAddrSpaces(r)[:1]), []Cfg{{HdrType: int(h), HdrCap: -1, ValCap: -1}}, every)
	}
	// generated value forms (not strided): display x addr-spec / name-addr x white space before the parameters x
	// parameter layouts x what follows
	var forms [][]byte
	for _, disp := range []string{"", "Bob ", "\"B\" ", " ", "\r\n "} {
		for _, uri := range []string{"sip:a@b", "<sip:a@b>", "sip:h", "<sip:a@b;x=1>", "tel:1"} {
			for _, ws := range []string{"", " ", "\t", " \r\n "} {
				for _, par := range []string{"", ";tag=1", ";lr", "; tag = 1", ";x;tag=z;y=2", ";expires=5;q=0.5", ";"} {
					for _, end := range []string{"\r\nX", " , <sip:c@d>\r\nX", "\r\n", ""} {
						forms = append(forms, []byte(disp+uri+ws+par+end))
					}
				}
			}
		}
	}
	for _, h := range []sipsp.HdrT{sipsp.HdrFrom, sipsp.HdrTo, sipsp.HdrContact, sipsp.HdrPAI, sipsp.HdrRoute} {
		shiftSpace(r, nameAddrDrv, "name-addr/forms/"+h.String(), forms, []Cfg{{HdrType: int(h), HdrCap: -1, ValCap: -1}}, every)
	}
	shiftSpace(r, nameAddrDrv, "name-addr/frags", sub(nameAddrSpaces(r)[6:7]), []Cfg{{HdrType: int(sipsp.HdrContact), HdrCap: -1, ValCap: -1}}, every)
	var tcf []Cfg
	for _, f := range tokFlagSets(r)[:12] {
		tcf = append(tcf, Cfg{Flags: f, HdrCap: -1, ValCap: -1}, Cfg{Flags: f | uint(sipsp.POptInputEndF), HdrCap: -1, ValCap: -1})
	}
	shiftSpace(r, tokParamDrv, "tokparam", sub(tokSpaces(r)), tcf, every)
	shiftSpace(r, tokLoopDrv, "tokparam-loop", sub(tokSpaces(r)[1:]), tcf[:8], every)
	shiftSpace(r, cseqDrv, "cseq", sub(numSpaces(r)), plain, every)
	shiftSpace(r, callidDrv, "callid", sub(numSpaces(r)), plain, every)
	for w := uint(0); w < 3; w++ {
		shiftSpace(r, uintDrv, "uint", sub(numSpaces(r)), []Cfg{{Flags: w, HdrCap: -1, ValCap: -1}}, every)
	}
	shiftSpace(r, flineDrv, "fline", sub(flineSpaces(r)), plain, every)
	hcf := []Cfg{{HdrCap: -1, ValCap: -1}, {HdrCap: -1, ValCap: -1, WithVals: true}, {HdrCap: 1, ValCap: 1, WithVals: true}}
	shiftSpace(r, hdrLineDrv, "hdrline", sub(hdrSpaces(r)), hcf, every)
	shiftSpace(r, hdrsDrv, "hdrs", sub(hdrSpaces(r)), hcf, every)
	lcf := []Cfg{{ValCap: -1, HdrCap: -1}, {ValCap: 1, HdrCap: -1}, {ValCap: 4, HdrCap: -1}}
	shiftSpace(r, contactsDrv, "contacts", sub(listSpaces(r)), lcf, every)
	shiftSpace(r, paisDrv, "pais", sub(listSpaces(r)), lcf[:1], every)
	ucf := []Cfg{{Flags: 0, ValCap: 2, HdrCap: -1}, {Flags: uint(sipsp.POptTokURIParamF | sipsp.POptInputEndF), ValCap: 8, HdrCap: -1}, {Flags: uint(sipsp.POptTokSpTermF), ValCap: -1, HdrCap: -1}}
	shiftSpace(r, uriParamsDrv, "uriparams", sub(uriListSpaces(r, false)), ucf, every)
	shiftSpace(r, uriHdrsDrv, "urihdrs", sub(uriListSpaces(r, true)), ucf, every)
	shiftSpace(r, skipQuotedDrv, "skipquoted", sub(skipQuotedSpaces(r)), plain, every)
	// relocation of parsed URIs: moved to offset k (span = URI length) every component denotes the same text
	fam := c15Family(r.pick(300, 1500))
	telURIs := []string{"tel:123", "tel:+1-555-0100;phone-context=x.example", "tel:7042;a=b?h=1", "TEL:9",
		// URIs that end in a separator (empty last component)
		"sip:h;", "sip:h?", "sip:h:", "sip:u@h;p=1?", "sips:u:p@h:5061;", "tel:1;"}
	parallelFor(r, len(fam)+len(telURIs), func(c *enumCtx, i int) {
		var s []byte
		if i < len(fam) {
			s = []byte(fam[i].String())
		} else {
			s = []byte(telURIs[i-len(fam)])
		}
		ks := c11Offsets(len(s))
		if !r.quick() && i%40 == 0 {
			ks = nil
			for k := 1; k+len(s) <= 65535; k++ {
				ks = append(ks, k)
			}
		}
		// the verdict for a span does not depend on where the URI is or goes: also "moved" onto its own position
		for _, k := range []int{0, 1, 255, 65535 - len(s)} {
			for _, span := range []int{len(s) - 1, len(s), len(s) + 1} {
				if k+span > 65535 {
					continue
				}
				vs, _ := evalC18(s, k, k, span)
				c.st.Transitions++
				for _, v := range vs {
					v.Property = "C11"
					v.Case.Kind = "C11uri"
					r.Col.add(v)
				}
			}
		}
		for _, k := range ks {
			vs, _ := evalC18(s, 0, k, len(s))
			c.st.Transitions++
			for _, v := range vs {
				v.Property = "C11"
				v.Case.Kind = "C11uri"
				r.Col.add(v)
			}
		}
		c.st.Evals++
		c.st.States++
		c.st.Nontrivial++
	})
	// the list comparison functions take a start offset per list: the result must not depend on either of them
	c11ListCmp(r)
	r.St.sample(fmt.Sprintf("%q at offsets %v", longMsgs[0][:60], c11Offsets(len(longMsgs[0]))))
	r.Bounds["strided_input_sets"] = collectNotes
	if len(collectNotes) > 0 {
		r.St.Exhaustive = false
		r.St.CapsHit = append(r.St.CapsHit, "input sets larger than the per-space cap were strided (see bounds.strided_input_sets); within the kept inputs all listed offsets were run")
	}
}

// c11ListCmp: URIParamsEq / URIHdrsEq on every ordered pair of a list family (short lists, lists longer than the
// 100-element scratch space, re-ordered, one value changed, with/without a must-match parameter) at every pair of
// start offsets from {0,1,3,255,4000,65535-len}: same result as at offsets (0,0).
func c11ListCmp(r *Run) {
	mk := func(n int, sep string, rev bool, changed int, extra string) string {
		var items []string
		for i := 0; i < n; i++ {
			v := fmt.Sprintf("v%d", i)
			if i == changed {
				v = "other"
			}
			items = append(items, fmt.Sprintf("p%d=%s", i, v))
		}
		if extra != "" {
			items = append(items, extra)
		}
		if rev {
			for i, j := 0, len(items)-1; i < j; i, j = i+1, j-1 {
				items[i], items[j] = items[j], items[i]
			}
		}
		return strings.Join(items, sep)
	}
	for _, hdrs := range []bool{false, true} {
		sep, extra := ";", "ttl=5"
		if hdrs {
			sep, extra = "&", "subject=x"
		}
		var lists []string
		for _, n := range []int{0, 1, 3, 99, 100, 101, 130} {
			lists = append(lists, mk(n, sep, false, -1, extra), mk(n, sep, true, -1, extra), mk(n, sep, false, n-1, extra), mk(n, sep, false, -1, ""), mk(n, sep, true, 0, extra))
		}
		call := func(a []byte, ka int, b []byte, kb int) (bool, sipsp.ErrorHdr) {
			if hdrs {
				return sipsp.URIHdrsEq(a, ka, b, kb)
			}
			return sipsp.URIParamsEq(a, ka, b, kb)
		}
		parallelFor(r, len(lists)*len(lists), func(c *enumCtx, idx int) {
			la, lb := lists[idx/len(lists)], lists[idx%len(lists)]
			ok0, e0 := call([]byte(la), 0, []byte(lb), 0)
			c.st.States++
			c.st.Evals++
			c.st.Nontrivial++
			offs := func(l int) []int { return []int{0, 1, 3, 255, 4000, 65535 - l} }
			for _, ka := range offs(len(la)) {
				for _, kb := range offs(len(lb)) {
					c.st.Transitions++
					if v := c11ListCmpOne([]byte(la), []byte(lb), ka, kb, hdrs, ok0, e0); v != nil {
						r.Col.add(v)
					}
				}
			}
		})
	}
}

func c11ListCmpOne(la, lb []byte, ka, kb int, hdrs bool, ok0 bool, e0 sipsp.ErrorHdr) *Violation {
	site := "URIParamsEq"
	call := sipsp.URIParamsEq
	if hdrs {
		site, call = "URIHdrsEq", sipsp.URIHdrsEq
	}
	ba := append([]byte(strings.Repeat(";&=x", ka/4+1)[:ka]), la...)
	bb := append([]byte(strings.Repeat("p0=zz;", kb/6+1)[:kb]), lb...)
	ok, e := call(ba, ka, bb, kb)
	if ok == ok0 && e == e0 {
		return nil
	}
	cs := mkCase("C11listcmp", site, nil, la, nil)
	cs.Extra = map[string]any{"other": string(lb), "ka": ka, "kb": kb, "hdrs": hdrs}
	z := map[bool]string{true: "=0", false: ">0"}
	return &Violation{Property: "C11", Site: site, Rule: "same-result-at-every-start-offset",
		Class:  fmt.Sprintf("ka%s/kb%s/over100=%v", z[ka == 0], z[kb == 0], bytes.Count(la, []byte("=")) > 100 || bytes.Count(lb, []byte("=")) > 100),
		Detail: fmt.Sprintf("offsets (%d,%d): (%v,%v); offsets (0,0): (%v,%v)", ka, kb, ok, e, ok0, e0), Case: cs}
}

type shiftReplayFn func(c *Case) []*Violation

var shiftReg = map[string]shiftReplayFn{}

func regShift[T any](d *Driver[T]) {
	shiftReg[d.Name] = func(c *Case) []*Violation {
		cfg := *c.Cfg
		k, junk := cfg.Offs, cfg.Junk
		var big []byte
		if k > 300 {
			big = make([]byte, 65536)
			copy(big[k-64:k], junkBytes(junk, 64))
		}
		return evalShift(d, cfg, c.input(), &shiftBase{}, k, junk, big)
	}
}

func init() {
	regShift(msgDrv)
	regShift(flineDrv)
	regShift(hdrLineDrv)
	regShift(hdrsDrv)
	regShift(nameAddrDrv)
	regShift(contactsDrv)
	regShift(paisDrv)
	regShift(cseqDrv)
	regShift(callidDrv)
	regShift(uintDrv)
	regShift(tokParamDrv)
	regShift(tokLoopDrv)
	regShift(uriParamsDrv)
	regShift(uriHdrsDrv)
	regShift(skipQuotedDrv)
	replayers["C11"] = func(prop string, c *Case) []*Violation { return shiftReg[c.Driver](c) }
	replayers["C11uri"] = func(prop string, c *Case) []*Violation {
		vs, _ := evalC18(c.input(), exInt(c.Extra, "src"), exInt(c.Extra, "tgt"), exInt(c.Extra, "span"))
		for _, v := range vs {
			v.Property = "C11"
			v.Case.Kind = "C11uri"
		}
		return vs
	}
	replayers["C11listcmp"] = func(prop string, c *Case) []*Violation {
		la, lb := c.input(), []byte(c.Extra["other"].(string))
		hdrs, _ := c.Extra["hdrs"].(bool)
		call := sipsp.URIParamsEq
		if hdrs {
			call = sipsp.URIHdrsEq
		}
		ok0, e0 := call(la, 0, lb, 0)
		if v := c11ListCmpOne(la, lb, exInt(c.Extra, "ka"), exInt(c.Extra, "kb"), hdrs, ok0, e0); v != nil {
			return []*Violation{v}
		}
		return nil
	}
	register("C11", &checkDef{fn: checkC11,
		rule:        "E4: every input (all prefixes included) of the message menus and of each sub-parser's C02 space (two levels below its byte bound) is parsed at offset 0 and at each listed offset k behind junk of several kinds on the real code; verdict equal, offset and every non-empty field shifted by exactly k, all other values equal; states = inputs, transitions = parses at an offset; non-trivial = inputs with a definitive verdict",
		quickBudget: 150 * time.Second, thorBudget: 45 * time.Minute})
}
