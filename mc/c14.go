package main

import (
	"bytes"
	"fmt"
	"strings"
	"time"

	"github.com/intuitivelabs/sipsp"
)

func present(f sipsp.PField) bool { return f.Len > 0 || f.Offs != 0 }

// evalC14 checks one URI string against the lossless-ordered-decomposition oracle.
func evalC14(in []byte) (vs []*Violation, accepted bool) { return evalC14via(in, "") }

var c14Prefill = []byte("sips:user:pw@host.example:5061;p=1?h=2")

// evalC14via: via "" parses with ParseURI; via "parsecmp1" / "parsecmp2" takes the URI that URIParseCmp hands back
// in its first / second result structure, which the caller has used before (for a longer URI) and not reset.
func evalC14via(in []byte, via string) (vs []*Violation, accepted bool) {
	site := "ParseURI"
	if via != "" {
		site = "URIParseCmp"
	}
	// the components are compared with the input as the caller wrote it: the parser works on a copy
	pristine := in
	in = append(make([]byte, 0, len(in)), in...)
	add := func(rule, class, detail string) {
		c := mkCase("C14", site, nil, pristine, nil)
		if via != "" {
			c.Extra = map[string]any{"via": via}
			class = via + "/" + class
		}
		vs = append(vs, &Violation{Property: "C14", Site: site, Rule: rule, Class: class, Detail: detail, Case: c})
	}
	defer recoverTo3(add)
	var u sipsp.PsipURI
	var err sipsp.ErrorURI
	var n int
	defer func() {
		if !bytes.Equal(in, pristine) {
			add("concatenation-reproduces-input", "input-buffer-modified", fmt.Sprintf("the parser changed the caller's buffer: %q -> %q", pristine, in))
		}
	}()
	_, pm := guarded(func() string {
		switch via {
		case "":
			err, n = sipsp.ParseURI(in, &u)
		default:
			var r1, r2 sipsp.PsipURI
			sipsp.ParseURI(c14Prefill, &r1)
			r2 = r1
			other := []byte("sip:o")
			n = len(in)
			if via == "parsecmp1" {
				_, err, _ = sipsp.URIParseCmp(in, other, 0, &r1, &r2)
				u = r1
			} else {
				_, err, _ = sipsp.URIParseCmp(other, in, 0, &r1, &r2)
				u = r2
			}
			if err != 0 {
				n = 0
			}
		}
		return ""
	})
	if pm != "" {
		add("no-panic", "panic", pm)
		return
	}
	if err != 0 {
		if n < 0 || n > len(in) {
			add("error-position-inside-input", fmt.Sprint(err), fmt.Sprintf("error offset %d for input of %d bytes", n, len(in)))
		}
		return
	}
	accepted = true
	if n != len(in) {
		add("consumed-equals-length", "short", fmt.Sprintf("consumed %d of %d", n, len(in)))
	}
	if u.URIType == sipsp.TELuri {
		// tel: number[;params]: number in User, Host empty
		rest := in[4:]
		e := bytes.IndexAny(rest, ";?")
		if e < 0 {
			e = len(rest)
		}
		num := rest[:e]
		plain := len(num) > 0
		for _, c := range num {
			if !(c >= '0' && c <= '9') && c != '+' && c != '-' && c != '.' {
				plain = false
			}
		}
		if !bytes.Contains(rest, []byte("@")) {
			// no userinfo: whatever the number looks like (also number:digits), it is reported as the user, host empty
			if present(u.Host) {
				add("tel-host-empty", "host-present", fmt.Sprintf("Host=%v User=%v", u.Host, u.User))
			}
			if u.User.Len == 0 || int(u.User.Offs) != 4 {
				add("tel-number-in-user", "user-missing", fmt.Sprintf("User=%v", u.User))
			}
		}
		if plain && !bytes.ContainsAny(rest, "@:[]") {
			if present(u.Host) {
				add("tel-host-empty", "host-present", fmt.Sprintf("Host=%v", u.Host))
			}
			if !bytes.Equal(safeGet(in, u.User), num) || (len(num) > 0 && int(u.User.Offs) != 4) {
				add("tel-number-in-user", "user", fmt.Sprintf("User=%q want %q", safeGet(in, u.User), num))
			}
		}
		return
	}
	type comp struct {
		name  string
		f     sipsp.PField
		delim byte
	}
	comps := []comp{{"scheme", u.Scheme, 0}, {"user", u.User, 0}, {"pass", u.Pass, ':'}, {"host", u.Host, 0}, {"port", u.Port, ':'}, {"params", u.Params, ';'}, {"headers", u.Headers, '?'}}
	if present(u.User) || present(u.Pass) {
		comps[3].delim = '@'
	}
	pos := 0
	var out []byte
	for i, c := range comps {
		if !present(c.f) {
			if c.name == "host" {
				add("host-present", "no-host", "accepted sip URI without host")
			}
			continue
		}
		if i > 0 && c.delim != 0 {
			if pos >= len(in) || in[pos] != c.delim {
				add("delimiter-before-component", c.name, fmt.Sprintf("expected %q at %d before %s %v", c.delim, pos, c.name, c.f))
				return
			}
			out = append(out, c.delim)
			pos++
		}
		if int(c.f.Offs) != pos {
			add("components-ordered-and-adjacent", c.name, fmt.Sprintf("%s starts at %d, expected %d", c.name, c.f.Offs, pos))
			return
		}
		if pos+int(c.f.Len) > len(in) {
			add("component-inside-input", c.name, fmt.Sprintf("%s %v", c.name, c.f))
			return
		}
		out = append(out, in[pos:pos+int(c.f.Len)]...)
		pos += int(c.f.Len)
	}
	if !bytes.Equal(out, in) {
		add("concatenation-reproduces-input", "lossy", fmt.Sprintf("rebuilt %q", out))
	}
	if a := bytes.IndexByte(in, '@'); a >= 0 {
		// every ';' and '?' before the first '@' must lie inside the user (or password) part
		inside := func(j int, f sipsp.PField) bool { return present(f) && j >= int(f.Offs) && j < int(f.Offs+f.Len) }
		for j := 4; j < a; j++ {
			if (in[j] == ';' || in[j] == '?') && !inside(j, u.User) && !inside(j, u.Pass) {
				add("delimiters-before-at-belong-to-user", string(in[j]), fmt.Sprintf("%q at %d before '@' at %d is outside user %v / pass %v", in[j], j, a, u.User, u.Pass))
				break
			}
		}
	}
	// ':' is the delimiter between user and password: the user component holds none (not asserted for the library's
	// bracket back-track, where text first read as [host]:port;params becomes the user when an '@' follows)
	if us := safeGet(in, u.User); len(us) > 0 && us[0] != '[' && bytes.IndexByte(us, ':') >= 0 {
		add("delimiters-before-at-belong-to-user", "colon-inside-user", fmt.Sprintf("user %q pass %q", us, safeGet(in, u.Pass)))
	}
	if h := safeGet(in, u.Host); len(h) > 0 && h[0] == '[' && h[len(h)-1] != ']' {
		add("ipv6-host-keeps-brackets", "bracket", fmt.Sprintf("host %q", h))
	}
	if present(u.Port) {
		// the number reported for the port component is the one written there (the full numeric domain is C10's)
		if pt := safeGet(in, u.Port); len(pt) > 0 && len(pt) <= 5 {
			v, ok := 0, true
			for _, c := range pt {
				if c < '0' || c > '9' {
					ok = false
					break
				}
				v = v*10 + int(c-'0')
			}
			if ok && v <= 65535 && int(u.PortNo) != v {
				add("port-number-is-the-port-component", "portno", fmt.Sprintf("port %q PortNo %d", pt, u.PortNo))
			}
		}
		// here only that the port text is digits
		for _, c := range safeGet(in, u.Port) {
			if c < '0' || c > '9' {
				add("port-digits", "nondigit", fmt.Sprintf("port %q", safeGet(in, u.Port)))
				break
			}
		}
	}
	return
}

func checkC14(r *Run) {
	r.Assume = []string{"a user that starts with '[' (bracket back-track of malformed input) may contain ':'; any other user component contains none", "alphabet a 1 : @ ; ? & = [ ] . / after sip:/sips:/tel: (and case variants of the scheme); longer inputs are outside the bound"}
	sig := []byte("a1:@;?&=[]./")
	L := r.pick(8, 9)
	viaLen := r.pick(5, 6)
	for _, sch := range []string{"sip:", "sips:", "tel:", "SIP:", "sIpS:", "Tel:"} {
		l := L
		if sch != "sip:" && sch != "sips:" {
			l = L - 1
		}
		enumStrings(r, sig, 0, l, []byte(sch), func(c *enumCtx, s []byte) {
			vs, acc := evalC14(s)
			c.st.Evals++
			c.st.Transitions++
			if acc && len(s)-len(sch) <= viaLen {
				// the same URI as handed back by URIParseCmp into used result structures
				for _, via := range []string{"parsecmp1", "parsecmp2"} {
					v2, _ := evalC14via(s, via)
					vs = append(vs, v2...)
					c.st.Transitions++
				}
			}
			if !acc {
				c.st.Outcomes["rejected"]++
			}
			if acc {
				c.st.Outcomes["accepted"]++
				c.st.Nontrivial++
				c.st.States++
				if len(c.st.Samples) < 2 && len(s) > 8 {
					c.st.sample(fmt.Sprintf("%q accepted", s))
				}
			}
			for _, v := range vs {
				r.Col.add(v)
			}
		})
		r.noteSpace("ParseURI after "+sch, 0, 0, 0)
	}
	// numeric-looking user / password parts before a port (digits that are not the port must not count for it)
	for _, sch := range []string{"sip:", "sips:"} {
		for _, us := range []string{"u", "7", "65536", "u;p=1"} {
			for _, pw := range []string{"", "1", "65535", "65536", "123456", "00099999", "99999x", "4294967296"} {
				for _, h := range []string{"h", "[::1]", "9"} {
					for _, pt := range []string{"", "1", "5060", "65535", "00080"} {
						u := sch + us
						if pw != "" {
							u += ":" + pw
						}
						u += "@" + h
						if pt != "" {
							u += ":" + pt
						}
						for _, tail := range []string{"", ";lr", "?a=1"} {
							for _, via := range []string{"", "parsecmp1"} {
								vs, _ := evalC14via([]byte(u+tail), via)
								r.St.Evals++
								r.St.Transitions++
								for _, v := range vs {
									r.Col.add(v)
								}
							}
						}
					}
				}
			}
		}
	}
	// '%' escapes, complete and cut off, at the end of every component and at the end of the URI
	for _, base := range []string{"sip:%s", "sips:u%s@h", "sip:u:p%s@h", "sip:u@h%s", "sip:u@h:5060;p=v%s", "sip:h;p%s=v;q", "sip:u@h?a=b%s", "sip:u@h;lr?a%s=1&c=d", "tel:+1%s", "sip:u@[::1];x=%s"} {
		for _, esc := range []string{"%", "%4", "%41", "%4g", "%%", "%zz", "%41%", "%e2%82%ac"} {
			u := strings.Replace(base, "%s", esc, 1)
			for _, via := range []string{"", "parsecmp2"} {
				vs, _ := evalC14via([]byte(u), via)
				r.St.Evals++
				r.St.Transitions++
				for _, v := range vs {
					r.Col.add(v)
				}
			}
		}
	}
	// URIs made of real-world words (beyond the byte bound): the registered parameter names and values in every position,
	// with and without a user part
	pm := []string{"user=phone", "USER=Phone", "user=ip", "transport=udp", "lr", "ttl=1", "method=INVITE", "maddr=1.2.3.4", "phone-context=x.example", "xuser=phone", "user=phones", "user="}
	var plists []string
	for i, a := range pm {
		plists = append(plists, ";"+a)
		for j, b := range pm {
			if i != j && (i < 3 || j < 3) {
				plists = append(plists, ";"+a+";"+b)
			}
		}
	}
	plists = append(plists, "")
	for _, sch := range []string{"sip:", "sips:", "tel:", "SIP:"} {
		for _, ui := range []string{"", "alice@", "+15551234567@", "u:p@", "+358-555;postd=pp22@"} {
			for _, h := range []string{"h", "example.com", "+15551234567", "[::1]", "1.2.3.4"} {
				for _, pt := range []string{"", ":5060"} {
					for _, pl := range plists {
						for _, hd := range []string{"", "?user=phone", "?a=1&user=phone"} {
							vs, _ := evalC14([]byte(sch + ui + h + pt + pl + hd))
							r.St.Evals++
							r.St.Transitions++
							for _, v := range vs {
								r.Col.add(v)
							}
						}
					}
				}
			}
		}
	}
	// a few structured long URIs (beyond the byte bound)
	for _, s := range []string{"sip:user;x=1?y:pass@host.example.com:5060;transport=udp;lr?a=1&b=2", "sips:[2001:db8::1]:5061;maddr=[::1]", "sip:u?h@[::1]", "sip:a;b:c;d@e"} {
		vs, _ := evalC14([]byte(s))
		r.St.Evals++
		for _, v := range vs {
			r.Col.add(v)
		}
	}
	r.Bounds["alphabet"] = string(sig)
	r.Bounds["max_len_after_scheme"] = L
	r.Bounds["max_len_after_scheme_via_URIParseCmp"] = viaLen
}

func init() {
	replayers["C14"] = func(prop string, c *Case) []*Violation {
		via, _ := c.Extra["via"].(string)
		vs, _ := evalC14via(c.input(), via)
		return vs
	}
	register("C14", &checkDef{fn: checkC14,
		rule:        "E4: every string of length <= L over the delimiter alphabet after each scheme prefix is parsed by the real ParseURI and checked against the decomposition oracle (disjoint, ordered, exact delimiters, concatenation = input, '@' rule, brackets, consumed = len; rejected: error offset inside input); states = accepted URIs, transitions = ParseURI calls; non-trivial = accepted URI",
		quickBudget: 120 * time.Second, thorBudget: 20 * time.Minute})
}
