package main

func msgNoCLenExempt(obs string, flags uint) bool { return false }
func msgBodyLines(l string) bool                 { return false }
