package main

import (
	"bytes"
	"encoding/json"
	"fmt"
	"strings"
	"time"

	"github.com/intuitivelabs/sipsp"
)

type plItem struct {
	Name  string
	HasEq bool
	Val   string
	G     [4]string // LWS: before name, after name, after '=', after value
	Seps  int       // number of separators written after this item (1, or 2 for an empty item); last item: 0 or 1
}

// JSON form of plItem that keeps non-UTF-8 bytes (see bstr)
type plItemJ struct {
	Name  bstr
	HasEq bool
	Val   bstr
	G     [4]string
	Seps  int
}

func (it plItem) MarshalJSON() ([]byte, error) {
	return json.Marshal(plItemJ{bstr(it.Name), it.HasEq, bstr(it.Val), it.G, it.Seps})
}

func (it *plItem) UnmarshalJSON(d []byte) error {
	var j plItemJ
	if err := json.Unmarshal(d, &j); err != nil {
		return err
	}
	*it = plItem{string(j.Name), j.HasEq, string(j.Val), j.G, j.Seps}
	return nil
}

type plMode struct {
	Name  string
	Flags uint
	Sep   byte
	Term  string // "comma" "qm" "sp" "eoh" "end"
	Via   string // "tok" (ParseTokenParam loop), "uriparams", "urihdrs"
}

type c17Case struct {
	Items   []plItem
	LeadSep bool
	Mode    plMode
	TermLWS string // sp terminator: the LWS text; others: LWS before the terminator
	Cap     int
	Cut     int  // > 0: two chunks, the first of this length (not with the end-of-input flag)
	NoReset bool `json:",omitempty"` // ParseTokenParam loop: the same PTokParam is passed again without Reset (documented use)
}

type plExp struct {
	NS, NE, VS, VE int
	Start          int // first byte of the item (name start)
	End            int // end of the item text proper (name or value end)
}

func (cs *c17Case) render() (buf []byte, exp []plExp, termPos int, endOffs int, wantErr sipsp.ErrorHdr) {
	var sb strings.Builder
	sep := string(cs.Mode.Sep)
	if cs.LeadSep {
		sb.WriteString(sep)
	}
	for i, it := range cs.Items {
		sb.WriteString(it.G[0])
		var e plExp
		e.Start = sb.Len()
		e.NS = sb.Len()
		sb.WriteString(it.Name)
		e.NE = sb.Len()
		e.End = e.NE
		if it.HasEq {
			sb.WriteString(it.G[1])
			sb.WriteString("=")
			e.End = sb.Len()
			if it.Val != "" {
				sb.WriteString(it.G[2])
				e.VS = sb.Len()
				sb.WriteString(it.Val)
				e.VE = sb.Len()
				e.End = e.VE
			}
		}
		exp = append(exp, e)
		last := i == len(cs.Items)-1
		if !last || cs.Mode.Term != "sp" {
			if !(last && cs.Mode.Term == "sp") {
				if it.HasEq && it.Val == "" {
					// no LWS after '=' of an empty value (it would be trailing LWS)
				} else if !it.HasEq {
					sb.WriteString(it.G[1])
				} else {
					sb.WriteString(it.G[3])
				}
			}
		}
		for k := 0; k < it.Seps; k++ {
			sb.WriteString(sep)
		}
	}
	switch cs.Mode.Term {
	case "comma":
		sb.WriteString(cs.TermLWS)
		termPos = sb.Len()
		sb.WriteString(",next;x=1\r\n")
		endOffs, wantErr = termPos, sipsp.ErrHdrOk
	case "qm":
		sb.WriteString(cs.TermLWS)
		termPos = sb.Len()
		sb.WriteString("?h=1\r\n")
		endOffs, wantErr = termPos, sipsp.ErrHdrOk
	case "sp":
		sb.WriteString(cs.TermLWS)
		termPos = sb.Len()
		sb.WriteString("tok x\r\n")
		endOffs, wantErr = termPos-1, sipsp.ErrHdrOk
	case "eoh":
		sb.WriteString(cs.TermLWS)
		sb.WriteString("\r\n")
		termPos = sb.Len()
		sb.WriteString("X: y\r\n")
		endOffs, wantErr = termPos, sipsp.ErrHdrEOH
	case "end":
		sb.WriteString(cs.TermLWS)
		termPos = sb.Len()
		endOffs, wantErr = termPos, sipsp.ErrHdrEOH
	}
	return []byte(sb.String()), exp, termPos, endOffs, wantErr
}

func gapsUsed(cs *c17Case) string {
	var p []string
	nm := []string{"before-name", "after-name", "after=", "after-value"}
	for _, it := range cs.Items {
		for g, s := range it.G {
			if s != "" {
				p = append(p, nm[g])
			}
		}
		if it.Seps > 1 {
			p = append(p, "empty-item")
		}
	}
	if cs.LeadSep {
		p = append(p, "leading-sep")
	}
	if cs.TermLWS != "" && cs.Mode.Term != "sp" {
		p = append(p, "lws-before-term")
	}
	if len(p) == 0 {
		return "plain"
	}
	return strings.Join(p, "+")
}

func evalC17(cs *c17Case) (vs []*Violation) {
	buf, exp, _, endOffs, wantErr := cs.render()
	site := map[string]string{"tok": "ParseTokenParam", "uriparams": "ParseAllURIParams", "urihdrs": "ParseAllURIHdrs"}[cs.Mode.Via]
	cls := cs.Mode.Term + "/" + gapsUsed(cs)
	if cs.NoReset {
		cls += "/same-param-again-without-reset"
	}
	add := func(rule, class, detail string) {
		c := mkCase("C17", site, &Cfg{Flags: cs.Mode.Flags, ValCap: cs.Cap, HdrCap: -1}, buf, nil)
		c.Extra = map[string]any{"case": *cs} // a copy: callers re-use their case variables
		vs = append(vs, &Violation{Property: "C17", Site: site, Rule: rule, Class: class, Detail: detail, Case: c})
	}
	defer recoverTo3(add)
	flags := sipsp.POptFlags(cs.Mode.Flags)
	f1 := flags &^ sipsp.POptInputEndF // first of two calls: the input is not complete yet, the end flag comes with the last call
	cmpItem := func(i int, p *sipsp.PTokParam, what string) {
		e := exp[i]
		if int(p.Name.Offs) != e.NS || int(p.Name.Offs+p.Name.Len) != e.NE {
			add("name-stripped", what, fmt.Sprintf("item %d name %v=%q want [%d,%d)=%q", i, p.Name, safeGet(buf, p.Name), e.NS, e.NE, buf[e.NS:e.NE]))
		}
		if e.VS == e.VE {
			if p.Val.Len != 0 {
				add("value-stripped", what+"-empty", fmt.Sprintf("item %d val %v want empty", i, p.Val))
			}
		} else if int(p.Val.Offs) != e.VS || int(p.Val.Offs+p.Val.Len) != e.VE {
			add("value-stripped", what, fmt.Sprintf("item %d val %v=%q want [%d,%d)=%q", i, p.Val, safeGet(buf, p.Val), e.VS, e.VE, buf[e.VS:e.VE]))
		}
		// All: only required to contain Name and Val and to lie inside the item
		as, ae := int(p.All.Offs), int(p.All.Offs+p.All.Len)
		if as > e.NS || ae < e.NE || (e.VS != e.VE && ae < e.VE) || as < e.Start || ae > e.End {
			add("all-covers-name-and-value", what, fmt.Sprintf("item %d All %v item [%d,%d)", i, p.All, e.Start, e.End))
		}
	}
	switch cs.Mode.Via {
	case "tok":
		var p sipsp.PTokParam
		offs := 0
		avail := len(buf)
		first := false // a first call without the end flag is still due
		if cs.Cut > 0 && cs.Cut <= len(buf) {
			avail, first = cs.Cut, true
		}
		for i := 0; ; i++ {
			fl := flags
			if first {
				fl = f1
			}
			n, e := sipsp.ParseTokenParam(buf[:avail], offs, &p, fl)
			if e == sipsp.ErrHdrMoreBytes && first {
				avail, first = len(buf), false
				n, e = sipsp.ParseTokenParam(buf, n, &p, flags)
			}
			if len(exp) == 0 {
				if e != wantErr || n != endOffs {
					add("terminator-verdict-and-offset", cls, fmt.Sprintf("empty list: (%d,%v) want (%d,%v)", n, e, endOffs, wantErr))
				}
				return
			}
			if i >= len(exp) {
				add("each-item-once", cls, "more items reported than written")
				return
			}
			last := i == len(exp)-1
			if !last {
				if e != sipsp.ErrHdrMoreValues {
					add("more-values-between-items", cls, fmt.Sprintf("after item %d: (%d,%v)", i, n, e))
					return
				}
				if n != exp[i+1].Start {
					add("more-values-offset-is-next-item", cls, fmt.Sprintf("after item %d: offset %d want %d", i, n, exp[i+1].Start))
				}
			} else if e != wantErr || n != endOffs {
				add("terminator-verdict-and-offset", cls, fmt.Sprintf("final (%d,%v) want (%d,%v)", n, e, endOffs, wantErr))
				if !successLike(e) {
					return
				}
			}
			cmpItem(i, &p, "item")
			if last {
				return
			}
			if !cs.NoReset {
				p.Reset()
			}
			offs = n
		}
	case "uriparams":
		var l sipsp.URIParamsLst
		if cs.Cap >= 0 {
			l.Init(make([]sipsp.URIParam, cs.Cap, cs.Cap+2))
		}
		var n, cnt int
		var e sipsp.ErrorHdr
		if cs.Cut > 0 && cs.Cut <= len(buf) {
			var c1 int
			if n, c1, e = sipsp.ParseAllURIParams(buf[:cs.Cut], 0, &l, f1); e == sipsp.ErrHdrMoreBytes {
				n, cnt, e = sipsp.ParseAllURIParams(buf, n, &l, flags)
			}
			cnt += c1
		} else {
			n, cnt, e = sipsp.ParseAllURIParams(buf, 0, &l, flags)
		}
		if e != wantErr || n != endOffs {
			add("terminator-verdict-and-offset", cls, fmt.Sprintf("final (%d,%v) want (%d,%v)", n, e, endOffs, wantErr))
			return
		}
		if len(exp) == 0 {
			for i := 0; i < l.PNo(); i++ {
				if !l.Params[i].Param.Name.Empty() {
					add("each-item-once", "spurious", "non-empty element for an empty list")
				}
			}
			return
		}
		if l.N != len(exp) || cnt != len(exp) {
			add("wrapper-counts-every-parameter", cls, fmt.Sprintf("N=%d vNo=%d want %d", l.N, cnt, len(exp)))
			return
		}
		var types sipsp.URIParamF
		for i := range exp {
			t := refURIParamType(string(buf[exp[i].NS:exp[i].NE]))
			types |= t
			if i < l.PNo() {
				cmpItem(i, &l.Params[i].Param, "stored")
				if l.Params[i].T != t {
					add("known-uri-params-classified", "T", fmt.Sprintf("item %d %q T=%#x want %#x", i, buf[exp[i].NS:exp[i].NE], l.Params[i].T, t))
				}
			}
		}
		if l.Types != types {
			add("type-flags-accumulated", "Types", fmt.Sprintf("Types=%#x want %#x", l.Types, types))
		}
		wantStored := len(exp)
		if cs.Cap < wantStored {
			wantStored = cs.Cap
			if cs.Cap < 0 {
				wantStored = 0
			}
		}
		if l.PNo() != wantStored || l.More() != (len(exp) > wantStored) {
			add("stored-prefix-and-more", "count", fmt.Sprintf("PNo=%d More=%v want %d", l.PNo(), l.More(), wantStored))
		}
	case "urihdrs":
		var l sipsp.URIHdrsLst
		if cs.Cap >= 0 {
			l.Init(make([]sipsp.URIHdr, cs.Cap, cs.Cap+2))
		}
		var n, cnt int
		var e sipsp.ErrorHdr
		if cs.Cut > 0 && cs.Cut <= len(buf) {
			var c1 int
			if n, c1, e = sipsp.ParseAllURIHdrs(buf[:cs.Cut], 0, &l, f1); e == sipsp.ErrHdrMoreBytes {
				n, cnt, e = sipsp.ParseAllURIHdrs(buf, n, &l, flags)
			}
			cnt += c1
		} else {
			n, cnt, e = sipsp.ParseAllURIHdrs(buf, 0, &l, flags)
		}
		if e != wantErr || n != endOffs {
			add("terminator-verdict-and-offset", cls, fmt.Sprintf("final (%d,%v) want (%d,%v)", n, e, endOffs, wantErr))
			return
		}
		if len(exp) == 0 {
			return
		}
		if l.N != len(exp) || cnt != len(exp) {
			add("wrapper-counts-every-parameter", cls, fmt.Sprintf("N=%d vNo=%d want %d", l.N, cnt, len(exp)))
			return
		}
		for i := 0; i < l.HNo() && i < len(exp); i++ {
			cmpItem(i, (*sipsp.PTokParam)(&l.Hdrs[i]), "stored")
		}
		wantStored := len(exp)
		if cs.Cap < wantStored {
			wantStored = cs.Cap
			if cs.Cap < 0 {
				wantStored = 0
			}
		}
		if l.HNo() != wantStored || l.More() != (len(exp) > wantStored) {
			add("stored-prefix-and-more", "count", fmt.Sprintf("HNo=%d More=%v want %d", l.HNo(), l.More(), wantStored))
		}
	}
	return
}

func safeGet(buf []byte, f sipsp.PField) []byte {
	if int(f.Offs)+int(f.Len) > len(buf) {
		return nil
	}
	return f.Get(buf)
}

func refURIParamType(n string) sipsp.URIParamF {
	switch strings.ToLower(n) {
	case "transport":
		return sipsp.URIParamTransportF
	case "user":
		return sipsp.URIParamUserF
	case "method":
		return sipsp.URIParamMethodF
	case "ttl":
		return sipsp.URIParamTTLF
	case "maddr":
		return sipsp.URIParamMaddrF
	case "lr":
		return sipsp.URIParamLRF
	}
	return sipsp.URIParamOtherF
}

// byte-class rule: a byte outside the documented set is rejected rather than absorbed.
func evalC17Byte(x byte, inValue bool, mode plMode) (vs []*Violation) {
	allowed := func(c byte) bool {
		if (c >= '0' && c <= '9') || (c >= 'a' && c <= 'z') || (c >= 'A' && c <= 'Z') {
			return true
		}
		if strings.IndexByte("-_.!~*'()%[]/:+$", c) >= 0 {
			return true
		}
		if c == '&' {
			return mode.Flags&uint(sipsp.POptTokURIParamF) != 0
		}
		if c == '?' {
			return mode.Flags&uint(sipsp.POptTokURIParamF) == 0
		}
		return false
	}
	// structural bytes in this mode are not part of the test
	structural := []byte{mode.Sep, '=', ' ', '\t', '\r', '\n'}
	if mode.Flags&uint(sipsp.POptTokQmTermF|sipsp.POptTokURIParamF) != 0 {
		structural = append(structural, '?')
	} else if mode.Flags&uint(sipsp.POptTokCommaTermF) != 0 {
		structural = append(structural, ',')
	}
	for _, s := range structural {
		if x == s {
			return nil
		}
	}
	var txt []byte
	if inValue {
		txt = []byte("nm=v" + string([]byte{x}) + "w")
	} else {
		txt = []byte("n" + string([]byte{x}) + "m=vw")
	}
	buf := append(append([]byte(nil), txt...), mode.Sep)
	buf = append(buf, "z=1\r\nX"...)
	var p sipsp.PTokParam
	n, e := sipsp.ParseTokenParam(buf, 0, &p, sipsp.POptFlags(mode.Flags))
	site := "ParseTokenParam"
	pos := "name"
	if inValue {
		pos = "value"
	}
	mk := func(rule, detail string) *Violation {
		c := mkCase("C17byte", site, &Cfg{Flags: mode.Flags}, []byte{x}, nil)
		c.Extra = map[string]any{"in_value": inValue, "mode": mode}
		return &Violation{Property: "C17", Site: site, Rule: rule, Class: pos + "/" + mode.Name, Detail: detail, Case: c}
	}
	if allowed(x) {
		if e != sipsp.ErrHdrMoreValues || n != len(txt)+1 {
			vs = append(vs, mk("documented-byte-accepted", fmt.Sprintf("byte %#x in %s: (%d,%v)", x, pos, n, e)))
		} else if string(safeGet(buf, p.Name)) != map[bool]string{true: "nm", false: "n" + string([]byte{x}) + "m"}[inValue] ||
			string(safeGet(buf, p.Val)) != map[bool]string{true: "v" + string([]byte{x}) + "w", false: "vw"}[inValue] {
			vs = append(vs, mk("documented-byte-accepted", fmt.Sprintf("byte %#x in %s: name %q val %q", x, pos, safeGet(buf, p.Name), safeGet(buf, p.Val))))
		}
	} else if successLike(e) || e == sipsp.ErrHdrMoreBytes {
		if x == '"' && inValue {
			return nil
		}
		vs = append(vs, mk("undocumented-byte-rejected", fmt.Sprintf("byte %#x in %s absorbed: (%d,%v) name %q val %q", x, pos, n, e, safeGet(buf, p.Name), safeGet(buf, p.Val))))
	}
	return
}

func c17Modes() []plMode {
	C, Q, S, E := uint(sipsp.POptTokCommaTermF), uint(sipsp.POptTokQmTermF), uint(sipsp.POptTokSpTermF), uint(sipsp.POptInputEndF)
	semi, amp := uint(sipsp.POptParamSemiSepF), uint(sipsp.POptParamAmpSepF)
	up, uh := uint(sipsp.POptTokURIParamF), uint(sipsp.POptTokURIHdrF)
	return []plMode{
		{"semi/comma", semi | C, ';', "comma", "tok"}, {"semi/qm", semi | Q, ';', "qm", "tok"}, {"semi/sp", semi | S, ';', "sp", "tok"},
		{"semi/eoh", semi, ';', "eoh", "tok"}, {"default/eoh", 0, ';', "eoh", "tok"}, {"semi/end", semi | E, ';', "end", "tok"},
		{"semi/comma+end", semi | C | E, ';', "comma", "tok"}, {"semi/comma+end:end", semi | C | E, ';', "end", "tok"},
		{"amp/comma", amp | C, '&', "comma", "tok"}, {"amp/sp", amp | S, '&', "sp", "tok"}, {"amp/eoh", amp, '&', "eoh", "tok"}, {"amp/end", amp | E, '&', "end", "tok"},
		{"uriparam/qm", up, ';', "qm", "tok"}, {"uriparam/end", up | E, ';', "end", "tok"}, {"uriparam/eoh", up, ';', "eoh", "tok"},
		{"urihdr/end", uh | E, '&', "end", "tok"}, {"urihdr/eoh", uh, '&', "eoh", "tok"}, {"urihdr/sp", uh | S, '&', "sp", "tok"},
		// the SP terminator together with a terminator character ("or both"): ended by either
		{"semi/comma|sp:sp", semi | C | S, ';', "sp", "tok"}, {"semi/comma|sp:comma", semi | C | S, ';', "comma", "tok"},
		{"semi/qm|sp:sp", semi | Q | S, ';', "sp", "tok"}, {"semi/qm|sp:qm", semi | Q | S, ';', "qm", "tok"},
		{"uriparam|sp:sp", up | S, ';', "sp", "tok"}, {"uriparam|sp:qm", up | S, ';', "qm", "tok"}, {"amp/comma|sp:sp", amp | C | S, '&', "sp", "tok"},
		{"ParseAllURIParams/qm|sp:sp", up | S, ';', "sp", "uriparams"}, {"ParseAllURIParams/comma|sp:sp", C | S, ';', "sp", "uriparams"}, {"ParseAllURIHdrs/comma|sp:sp", uh | C | S, '&', "sp", "urihdrs"},
		{"ParseAllURIParams/qm", up, ';', "qm", "uriparams"}, {"ParseAllURIParams/end", up | E, ';', "end", "uriparams"}, {"ParseAllURIParams/sp", S, ';', "sp", "uriparams"},
		{"ParseAllURIParams/eoh", 0, ';', "eoh", "uriparams"},
		{"ParseAllURIHdrs/end", uh | E, '&', "end", "urihdrs"}, {"ParseAllURIHdrs/eoh", 0, '&', "eoh", "urihdrs"}, {"ParseAllURIHdrs/sp", S, '&', "sp", "urihdrs"},
	}
}

func checkC17(r *Run) {
	r.Assume = []string{"PTokParam.All is only required to contain Name and Val and lie inside the item", "with the SP terminator the last item never ends in '='",
		"zero-item lists: only verdict/offset (and no non-empty element) are asserted, and only for end-of-header / end-of-input terminators",
		"LWS is never generated after '=' of an empty value"}
	names := []string{"a", "branch", "transport", "TTL", "lr"}
	type nv struct {
		eq  bool
		val string
	}
	vals := []nv{{false, ""}, {true, ""}, {true, "v1"}, {true, "\"q\""}, {true, "\"a\\\";b\""}, {true, "\"c:\\\\\""}} // the last one ends in an escaped backslash
	var items []plItem
	for _, n := range names {
		for _, v := range vals {
			items = append(items, plItem{Name: n, HasEq: v.eq, Val: v.val})
		}
	}
	lws3 := []string{" ", "\r\n ", "\t"}
	lws := lws3
	if !r.quick() {
		lws = append(append([]string(nil), lws3...), "\n ", "\r\n\t")
	}
	modes := c17Modes()
	cutEvery := r.pick(4, 3)
	run := func(c *enumCtx, cs *c17Case) {
		if cs.Mode.Term == "sp" && len(cs.Items) > 0 {
			l := cs.Items[len(cs.Items)-1]
			if l.HasEq && l.Val == "" {
				return
			}
		}
		vs := evalC17(cs)
		if cs.Mode.Via == "tok" && len(cs.Items) >= 2 && !cs.NoReset {
			// "another call to ParseTokenParam will return p2=v2": the same structure again, without Reset
			cc := *cs
			cc.NoReset = true
			vs = append(vs, evalC17(&cc)...)
			c.st.Transitions++
		}
		c.st.Evals++
		c.st.Transitions++
		c.st.States++
		c.st.Outcomes[cs.Mode.Name]++
		if len(cs.Items) > 0 {
			c.st.Nontrivial++
		}
		for _, v := range vs {
			r.Col.add(v)
		}
		// two-chunk delivery, every cut, for a deterministic selection of cases (never with the end-of-input flag:
		// it declares the first chunk complete)
		endMode := cs.Mode.Flags&uint(sipsp.POptInputEndF) != 0
		buf, _, _, _, _ := cs.render()
		var hsh uint32 = 2166136261
		for _, b := range buf {
			hsh = (hsh ^ uint32(b)) * 16777619
		}
		hsh = (hsh ^ uint32(cs.Mode.Flags)) * 16777619
		if int(hsh>>8)%cutEvery != 0 {
			return
		}
		last := len(buf) - 1
		if endMode {
			last = len(buf) // end-of-input modes: also a last call that brings no new byte, only the flag
		}
		for cut := 1; cut <= last; cut++ {
			cc := *cs
			cc.Cut = cut
			c.st.Evals++
			c.st.Transitions += 2
			for _, v := range evalC17(&cc) {
				r.Col.add(v)
			}
		}
	}
	maxItems := r.pick(2, 3)
	// enumerate item lists (mixed radix), gap assignments with <= 2 non-empty gaps, empty items, modes
	var lists [][]int
	var rec func(cur []int)
	rec = func(cur []int) {
		lists = append(lists, append([]int(nil), cur...))
		if len(cur) == maxItems {
			return
		}
		for i := range items {
			rec(append(cur, i))
		}
	}
	rec(nil)
	parallelFor(r, len(lists), func(c *enumCtx, li int) {
		idx := lists[li]
		for mi, m := range modes {
			if r.quick() && len(idx) == 2 && (li+mi)%4 != 0 {
				continue
			}
			if !r.quick() && len(idx) == 3 && (li+mi)%8 != 0 {
				continue
			}
			termLWS := []string{""}
			if m.Term == "sp" {
				termLWS = lws
				if len(idx) == 0 {
					continue
				}
			} else {
				termLWS = append(termLWS, lws...)
			}
			if len(idx) == 0 && (m.Term == "comma" || m.Term == "qm") {
				continue
			}
			for _, tl := range termLWS {
				base := c17Case{Mode: m, TermLWS: tl, Cap: []int{-1, 0, 1, 2, 8}[(li+mi)%5]}
				for _, i := range idx {
					it := items[i]
					it.Seps = 1
					base.Items = append(base.Items, it)
				}
				if n := len(base.Items); n > 0 {
					base.Items[n-1].Seps = 0
				}
				// gap assignments: choose <= 2 (item,gap,lws) triples
				type slot struct{ it, g int }
				var slots []slot
				for k, it := range base.Items {
					slots = append(slots, slot{k, 0})
					slots = append(slots, slot{k, 1})
					if it.HasEq && it.Val != "" {
						slots = append(slots, slot{k, 2}, slot{k, 3})
					}
				}
				gl := lws
				if len(idx) >= 3 {
					gl = lws3 // 3-item lists: the three basic LWS forms only (budget)
				}
				var grec func(start, left int)
				grec = func(start, left int) {
					cs := base
					cs.Items = append([]plItem(nil), base.Items...)
					run(c, &cs)
					if left == 0 {
						return
					}
					for s := start; s < len(slots); s++ {
						for _, w := range gl {
							base.Items[slots[s].it].G[slots[s].g] = w
							grec(s+1, left-1)
						}
						base.Items[slots[s].it].G[slots[s].g] = ""
					}
				}
				grec(0, 2)
				// empty items and leading separators
				if len(base.Items) >= 2 {
					cs := base
					cs.Items = append([]plItem(nil), base.Items...)
					cs.Items[0].Seps = 2
					run(c, &cs)
				}
				if len(base.Items) >= 1 {
					cs := base
					cs.Items = append([]plItem(nil), base.Items...)
					cs.LeadSep = true
					run(c, &cs)
					if m.Term == "eoh" || m.Term == "end" || m.Term == "comma" || m.Term == "qm" {
						// a separator after the last item: an empty last item, skipped like any other, then the terminator
						cs2 := base
						cs2.Items = append([]plItem(nil), base.Items...)
						cs2.Items[len(cs2.Items)-1].Seps = 1
						run(c, &cs2)
					}
				}
			}
		}
	})
	// longer lists: n = 4..24 and 99..102 items (names with a running number, values of all forms), every mode
	parallelFor(r, len(modes)*25, func(c *enumCtx, k int) {
		m, n := modes[k/25], []int{4, 5, 6, 7, 8, 9, 10, 11, 12, 13, 14, 15, 16, 17, 18, 19, 20, 21, 22, 23, 24, 99, 100, 101, 102}[k%25]
		var its []plItem
		for i := 0; i < n; i++ {
			v := vals[(i+n)%len(vals)]
			nm := fmt.Sprintf("p%d", i)
			if i%7 == 3 {
				nm = names[(i/7)%len(names)] + fmt.Sprint(i)
			}
			its = append(its, plItem{Name: nm, HasEq: v.eq, Val: v.val, Seps: 1})
		}
		its[n-1].Seps = 0
		if m.Term == "sp" && its[n-1].HasEq && its[n-1].Val == "" {
			its[n-1].Val = "z"
		}
		for _, cp := range []int{-1, 0, 1, n - 1, n, n + 1} {
			cs := c17Case{Mode: m, Cap: cp, Items: append([]plItem(nil), its...)}
			if m.Term == "sp" {
				cs.TermLWS = " "
			}
			run(c, &cs)
			if m.Via == "tok" {
				break // the capacity only exists for the list wrappers
			}
		}
	})
	// quoted values: every byte that may appear in a quoted string (HT, SP, printable ASCII except '"', every
	// byte >= 0x80), plain and - for 0x00..0x7f except CR/LF - as a quoted pair, in every mode incl. the list wrappers
	parallelFor(r, len(modes)*256*2, func(c *enumCtx, k int) {
		m, x, esc := modes[k/512], byte(k%256), k%512 >= 256
		if esc && (x >= 0x80 || x == '\r' || x == '\n') {
			return
		}
		if !esc && (x < 0x20 && x != '\t' || x == '"' || x == 0x7f || x == '\\') {
			return
		}
		v := "\"v"
		if esc {
			v += "\\"
		}
		v += string([]byte{x}) + "w\""
		for _, second := range []plItem{{Name: "z", HasEq: true, Val: "1"}, {Name: "lr"}} {
			cs := c17Case{Mode: m, Cap: -1, Items: []plItem{{Name: "nm", HasEq: true, Val: v, Seps: 1}, second}}
			if m.Term == "sp" {
				cs.TermLWS = " "
			}
			run(c, &cs)
		}
	})
	// byte classes
	for _, m := range modes {
		if m.Via != "tok" || m.Term == "end" {
			continue
		}
		for x := 0; x < 256; x++ {
			for _, iv := range []bool{false, true} {
				r.St.Evals++
				r.St.Transitions++
				for _, v := range evalC17Byte(byte(x), iv, m) {
					r.Col.add(v)
				}
			}
		}
	}
	c17BytesWrappers(r)
	// URIParamResolve (the classification the list wrappers use): exactly the six names, case-insensitively
	c17Resolve(r)
	// the same lists at the very end of a buffer of exactly 65,535 bytes (the documented addressing limit): verdict,
	// offset and items must be those of the list alone, shifted
	c17AtLimit(r, modes)
	// GetViaBrSig: depends only on the first branch parameter
	c17Via(r)
	cs := c17Case{Mode: modes[0], Items: []plItem{{Name: "branch", HasEq: true, Val: "z9hG4bK1", G: [4]string{"", " ", "", ""}, Seps: 2}, {Name: "lr"}}}
	b, _, _, _, _ := cs.render()
	r.St.sample(fmt.Sprintf("%q", b))
	r.Bounds["items_menu"] = len(items)
	r.Bounds["max_items"] = maxItems
	r.Bounds["modes"] = len(modes)
}

// c17ResolveOne: the lookup itself and, for names made of name characters only, the list wrapper's classification of
// that name (second of two parameters, with and without a value).
func c17ResolveOne(n []byte) (vs []*Violation) {
	want := refURIParamType(string(n))
	cl := "known-name"
	if want == sipsp.URIParamOtherF {
		cl = "other-name"
	}
	add := func(site, detail string) {
		vs = append(vs, &Violation{Property: "C17", Site: site, Rule: "known-uri-parameters-classified-case-insensitively", Class: cl, Detail: detail, Case: mkCase("C17resolve", site, nil, n, nil)})
	}
	defer recoverTo3(func(rule, class, detail string) { add("ParseAllURIParams", rule+" "+detail) })
	if got := sipsp.URIParamResolve(n); got != want {
		add("URIParamResolve", fmt.Sprintf("%q -> %#x want %#x", n, got, want))
	}
	if len(n) == 0 || len(n) > 300 {
		return
	}
	for _, c := range n {
		if !(c >= '0' && c <= '9' || c >= 'a' && c <= 'z' || c >= 'A' && c <= 'Z' || strings.IndexByte("-_.!~*'()%[]/:+$&", c) >= 0) {
			return
		}
	}
	for _, val := range []string{"=v", ""} {
		buf := []byte("x=1;" + string(n) + val)
		var l sipsp.URIParamsLst
		l.Init(make([]sipsp.URIParam, 4))
		_, _, e := sipsp.ParseAllURIParams(buf, 0, &l, sipsp.POptTokURIParamF|sipsp.POptInputEndF)
		if e != sipsp.ErrHdrEOH && e != 0 {
			continue // acceptance is not this clause's subject
		}
		if l.N != 2 || l.Params[1].T != want || l.Types != sipsp.URIParamOtherF|want {
			add("ParseAllURIParams", fmt.Sprintf("%q: N=%d type %#x Types %#x, want type %#x", buf, l.N, l.Params[1].T, l.Types, want))
		}
	}
	return
}

func c17Resolve(r *Run) {
	chk := func(c *enumCtx, n []byte) {
		c.st.Evals++
		c.st.Transitions += 3
		for _, v := range c17ResolveOne(n) {
			r.Col.add(v)
		}
	}
	enumStrings(r, all256(), 0, 2, nil, chk)
	names := []string{"transport", "lr", "maddr", "user", "method", "ttl"}
	parallelFor(r, len(names), func(c *enumCtx, i int) {
		base := []byte(names[i])
		for m := 0; m < 1<<len(base); m++ { // every letter-case variant
			v := append([]byte(nil), base...)
			for k := range v {
				if m>>k&1 == 1 {
					v[k] -= 32
				}
			}
			chk(c, v)
		}
		for p := 0; p <= len(base); p++ { // one-edit neighbours over all byte values
			for x := 0; x < 256; x++ {
				chk(c, append(append(append([]byte(nil), base[:p]...), byte(x)), base[p:]...))
				if p < len(base) {
					sub := append([]byte(nil), base...)
					sub[p] = byte(x)
					chk(c, sub)
				}
			}
			if p < len(base) {
				chk(c, append(append([]byte(nil), base[:p]...), base[p+1:]...))
			}
		}
		for _, l := range []int{256, 512, 65536} { // lengths that alias the name's length modulo 2^8 / 2^16
			chk(c, append(append([]byte(nil), base...), bytes.Repeat([]byte("x"), l)...))
		}
	})
}

func c17Via(r *Run) {
	brs := []string{"z9hG4bK776asdhds", "z9hG4bKabcdef0123456789", "1234", "z9hG4bK", "a.b-c_d", "Z9HG4BKxyz", "\"quoted;val\""}
	others := []string{"rport", "received=1.2.3.4", "ttl=1", "x=\"branch=no\"", "BRANCHX=1"}
	for _, br := range brs {
		want, wl := sipsp.GetViaBrSig([]byte("X;branch=" + br))
		for _, pre := range append([]string{""}, others...) {
			for _, post := range append([]string{""}, others...) {
				for _, bn := range []string{"branch", "BRANCH", "Branch"} {
					for _, g := range []string{"", " ", "\r\n "} {
						s := "SIP/2.0/UDP h:5060"
						if pre != "" {
							s += ";" + pre
						}
						s += g + ";" + g + bn + g + "=" + g + br
						if post != "" {
							s += g + ";" + post
						}
						for _, tail := range []string{"", ", SIP/2.0/UDP h2;branch=other"} {
							got, gl := sipsp.GetViaBrSig([]byte(s + tail))
							r.St.Evals++
							r.St.Transitions++
							if got != want || gl != wl {
								c := mkCase("C17via", "GetViaBrSig", nil, []byte(s+tail), nil)
								c.Extra = map[string]any{"branch": br}
								r.Col.add(&Violation{Property: "C17", Site: "GetViaBrSig", Rule: "depends-only-on-first-branch-value", Class: "via", Detail: fmt.Sprintf("got %#x,%d want %#x,%d", got, gl, want, wl), Case: c})
							}
						}
					}
				}
			}
		}
	}
	// no branch -> nothing
	for _, s := range []string{"SIP/2.0/UDP h", "SIP/2.0/UDP h;rport;ttl=1", "SIP/2.0/UDP h;x=\"branch=1\""} {
		if got, gl := sipsp.GetViaBrSig([]byte(s)); got != 0 || gl != 0 {
			r.Col.add(&Violation{Property: "C17", Site: "GetViaBrSig", Rule: "no-branch-no-signature", Class: "via", Detail: fmt.Sprintf("got %#x,%d", got, gl), Case: mkCase("C17via", "GetViaBrSig", nil, []byte(s), nil)})
		}
	}
}

func init() {
	replayers["C17"] = func(prop string, c *Case) []*Violation {
		var cs c17Case
		remarshal(c.Extra["case"], &cs)
		return evalC17(&cs)
	}
	replayers["C17resolve"] = func(prop string, c *Case) []*Violation {
		var out []*Violation
		for _, v := range c17ResolveOne(c.input()) {
			if v.Site == c.Driver {
				v.Case = c
				out = append(out, v)
			}
		}
		return out
	}
	replayers["C17byte"] = func(prop string, c *Case) []*Violation {
		var m plMode
		remarshal(c.Extra["mode"], &m)
		iv, _ := c.Extra["in_value"].(bool)
		return evalC17Byte(c.input()[0], iv, m)
	}
	replayers["C17via"] = func(prop string, c *Case) []*Violation {
		br, _ := c.Extra["branch"].(string)
		want, wl := sipsp.SigIPStartF&0, 0
		if br != "" {
			want, wl = sipsp.GetViaBrSig([]byte("X;branch=" + br))
		}
		got, gl := sipsp.GetViaBrSig(c.input())
		if got != want || gl != wl {
			return []*Violation{{Property: prop, Site: "GetViaBrSig", Rule: map[bool]string{true: "depends-only-on-first-branch-value", false: "no-branch-no-signature"}[br != ""], Class: "via", Case: c}}
		}
		return nil
	}
	register("C17", &checkDef{fn: checkC17,
		rule:        "E4: generated parameter lists (0-3 items from name x value menus, LWS at every legal gap with <= 2 non-empty, empty items, leading separators) x 25 modes (separator x terminator x URI-param/URI-hdr x entry point), expectations by construction; all 256 byte values in name and value positions per mode; GetViaBrSig metamorphic (depends only on first branch value); non-trivial = lists with >= 1 item",
		quickBudget: 120 * time.Second, thorBudget: 35 * time.Minute})
}

func c17AtLimit(r *Run, modes []plMode) {
	lists := [][]plItem{
		{{Name: "transport", HasEq: true, Val: "udp", Seps: 1}, {Name: "lr", Seps: 1}, {Name: "x", HasEq: true, Val: "\"a\\\";b\"", G: [4]string{" ", "", "", ""}}},
		{{Name: "a", HasEq: true, Val: "", Seps: 2}, {Name: "TTL", HasEq: true, Val: "1", G: [4]string{"", " ", "\t", ""}}},
		{{Name: "branch", HasEq: true, Val: "z9hG4bK1"}},
	}
	big := make([]byte, 65535)
	for i := range big {
		big[i] = 'j'
	}
	for _, m := range modes {
		for _, its := range lists {
			cs := &c17Case{Items: its, Mode: m, TermLWS: map[bool]string{true: " ", false: ""}[m.Term == "sp"], Cap: 8}
			buf, _, _, _, _ := cs.render()
			for _, total := range []int{65534, 65535} {
				k := total - len(buf)
				whole := append(append([]byte(nil), big[:k]...), buf...)
				r.St.Evals++
				r.St.Transitions += 2
				var res [2]string
				for w, b := range [][]byte{buf, whole} {
					offs := 0
					if w == 1 {
						offs = k
					}
					switch m.Via {
					case "tok":
						var p sipsp.PTokParam
						n, e := sipsp.ParseTokenParam(b, offs, &p, sipsp.POptFlags(m.Flags))
						res[w] = fmt.Sprint(n-offs, e, int(p.Name.Offs)-offs, p.Name.Len, (int(p.Val.Offs)-offs)*btoi(p.Val.Len > 0), p.Val.Len)
					case "uriparams":
						var l sipsp.URIParamsLst
						l.Init(make([]sipsp.URIParam, 8))
						n, cnt, e := sipsp.ParseAllURIParams(b, offs, &l, sipsp.POptFlags(m.Flags))
						res[w] = fmt.Sprint(n-offs, cnt, e, l.N, l.Types)
					case "urihdrs":
						var l sipsp.URIHdrsLst
						l.Init(make([]sipsp.URIHdr, 8))
						n, cnt, e := sipsp.ParseAllURIHdrs(b, offs, &l, sipsp.POptFlags(m.Flags))
						res[w] = fmt.Sprint(n-offs, cnt, e, l.N)
					}
				}
				if res[0] != res[1] {
					c := mkCase("C17limit", "ParseTokenParam", &Cfg{Flags: m.Flags, Offs: k}, buf, nil)
					c.Extra = map[string]any{"via": m.Via, "total": total}
					r.Col.add(&Violation{Property: "C17", Site: map[string]string{"tok": "ParseTokenParam", "uriparams": "ParseAllURIParams", "urihdrs": "ParseAllURIHdrs"}[m.Via],
						Rule: "same-result-at-the-end-of-a-65535-byte-buffer", Class: fmt.Sprintf("total=%d", total), Detail: fmt.Sprintf("alone %s at offset %d %s", res[0], k, res[1]), Case: c})
				}
			}
		}
	}
}

func btoi(b bool) int {
	if b {
		return 1
	}
	return 0
}

func init() {
	replayers["C17limit"] = func(prop string, c *Case) []*Violation {
		buf := c.input()
		total := exInt(c.Extra, "total")
		via, _ := c.Extra["via"].(string)
		k := total - len(buf)
		big := make([]byte, k)
		for i := range big {
			big[i] = 'j'
		}
		whole := append(big, buf...)
		var res [2]string
		for w, b := range [][]byte{buf, whole} {
			offs := 0
			if w == 1 {
				offs = k
			}
			switch via {
			case "tok":
				var p sipsp.PTokParam
				n, e := sipsp.ParseTokenParam(b, offs, &p, sipsp.POptFlags(c.Cfg.Flags))
				res[w] = fmt.Sprint(n-offs, e, int(p.Name.Offs)-offs, p.Name.Len, (int(p.Val.Offs)-offs)*btoi(p.Val.Len > 0), p.Val.Len)
			case "uriparams":
				var l sipsp.URIParamsLst
				l.Init(make([]sipsp.URIParam, 8))
				n, cnt, e := sipsp.ParseAllURIParams(b, offs, &l, sipsp.POptFlags(c.Cfg.Flags))
				res[w] = fmt.Sprint(n-offs, cnt, e, l.N, l.Types)
			case "urihdrs":
				var l sipsp.URIHdrsLst
				l.Init(make([]sipsp.URIHdr, 8))
				n, cnt, e := sipsp.ParseAllURIHdrs(b, offs, &l, sipsp.POptFlags(c.Cfg.Flags))
				res[w] = fmt.Sprint(n-offs, cnt, e, l.N)
			}
		}
		if res[0] != res[1] {
			site := map[string]string{"tok": "ParseTokenParam", "uriparams": "ParseAllURIParams", "urihdrs": "ParseAllURIHdrs"}[via]
			return []*Violation{{Property: prop, Site: site, Rule: "same-result-at-the-end-of-a-65535-byte-buffer", Class: fmt.Sprintf("total=%d", total), Case: c}}
		}
		return nil
	}
}

// evalC17ByteWrapper: the byte-class rule through the list wrappers, whose effective mode is what the caller's flags
// say (ParseAllURIParams adds the ';' separator only; ParseAllURIHdrs adds the '&' separator and the URI-header mode).
func evalC17ByteWrapper(x byte, inValue, hdrs bool, flags uint) (vs []*Violation) {
	up := !hdrs && flags&uint(sipsp.POptTokURIParamF) != 0
	sep := byte(';')
	if hdrs {
		sep = '&'
	}
	structural := []byte{sep, '=', ' ', '\t', '\r', '\n'}
	if flags&uint(sipsp.POptTokQmTermF) != 0 || up {
		structural = append(structural, '?')
	}
	if flags&uint(sipsp.POptTokCommaTermF) != 0 {
		structural = append(structural, ',')
	}
	for _, s := range structural {
		if x == s {
			return nil
		}
	}
	allowed := (x >= '0' && x <= '9') || (x >= 'a' && x <= 'z') || (x >= 'A' && x <= 'Z') || strings.IndexByte("-_.!~*'()%[]/:+$", x) >= 0 ||
		(x == '&' && up) || (x == '?' && !up)
	xs := string([]byte{x})
	name, val := "n"+xs+"m", "vw"
	if inValue {
		name, val = "nm", "v"+xs+"w"
	}
	txt := name + "=" + val + string([]byte{sep}) + "z=1"
	if flags&uint(sipsp.POptInputEndF) == 0 {
		txt += "\r\nX"
	}
	buf := []byte(txt)
	site := "ParseAllURIParams"
	if hdrs {
		site = "ParseAllURIHdrs"
	}
	pos := "name"
	if inValue {
		pos = "value"
	}
	mk := func(rule, detail string) {
		c := mkCase("C17bytew", site, &Cfg{Flags: flags}, []byte{x}, nil)
		c.Extra = map[string]any{"in_value": inValue, "hdrs": hdrs}
		vs = append(vs, &Violation{Property: "C17", Site: site, Rule: rule, Class: fmt.Sprintf("%s/flags=%#x", pos, flags), Detail: detail, Case: c})
	}
	defer recoverTo3(func(rule, class, detail string) { mk(rule, detail) })
	var e sipsp.ErrorHdr
	var n, cnt int
	var gotN int
	var gname, gval []byte
	if hdrs {
		var l sipsp.URIHdrsLst
		l.Init(make([]sipsp.URIHdr, 4))
		n, cnt, e = sipsp.ParseAllURIHdrs(buf, 0, &l, sipsp.POptFlags(flags))
		gotN, gname, gval = l.N, safeGet(buf, l.Hdrs[0].Name), safeGet(buf, l.Hdrs[0].Val)
	} else {
		var l sipsp.URIParamsLst
		l.Init(make([]sipsp.URIParam, 4))
		n, cnt, e = sipsp.ParseAllURIParams(buf, 0, &l, sipsp.POptFlags(flags))
		gotN, gname, gval = l.N, safeGet(buf, l.Params[0].Param.Name), safeGet(buf, l.Params[0].Param.Val)
	}
	if allowed {
		if !successLike(e) || gotN != 2 || string(gname) != name || string(gval) != val {
			mk("documented-byte-accepted", fmt.Sprintf("byte %#x in %s: %q -> (%d,%d,%v) N=%d first %q=%q", x, pos, buf, n, cnt, e, gotN, gname, gval))
		}
	} else if successLike(e) || e == sipsp.ErrHdrMoreBytes {
		if x == '"' && inValue {
			return
		}
		mk("undocumented-byte-rejected", fmt.Sprintf("byte %#x in %s absorbed: %q -> (%d,%d,%v) N=%d first %q=%q", x, pos, buf, n, cnt, e, gotN, gname, gval))
	}
	return
}

func c17BytesWrappers(r *Run) {
	C, Q, S, E, up := uint(sipsp.POptTokCommaTermF), uint(sipsp.POptTokQmTermF), uint(sipsp.POptTokSpTermF), uint(sipsp.POptInputEndF), uint(sipsp.POptTokURIParamF)
	for _, hdrs := range []bool{false, true} {
		fls := []uint{0, E, S, C, C | E, up, up | E, Q, Q | E}
		if hdrs {
			fls = []uint{0, E, S, C, C | E}
		}
		for _, fl := range fls {
			for x := 0; x < 256; x++ {
				for _, iv := range []bool{false, true} {
					r.St.Evals++
					r.St.Transitions++
					for _, v := range evalC17ByteWrapper(byte(x), iv, hdrs, fl) {
						r.Col.add(v)
					}
				}
			}
		}
	}
}

func init() {
	replayers["C17bytew"] = func(prop string, c *Case) []*Violation {
		iv, _ := c.Extra["in_value"].(bool)
		h, _ := c.Extra["hdrs"].(bool)
		return evalC17ByteWrapper(c.input()[0], iv, h, c.Cfg.Flags)
	}
}
