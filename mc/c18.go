package main

import (
	"bytes"
	"fmt"
	"time"

	"github.com/intuitivelabs/sipsp"
)

func uriComps(u *sipsp.PsipURI) []*sipsp.PField {
	return []*sipsp.PField{&u.Scheme, &u.User, &u.Pass, &u.Host, &u.Port, &u.Params, &u.Headers}
}

var compNames = []string{"scheme", "user", "pass", "host", "port", "params", "headers"}

// evalC18 relocates the parsed URI `in` (parsed at srcOffs inside a junk-prefixed buffer) to tgtOffs with the given span.
func evalC18(in []byte, srcOffs, tgtOffs, span int) (vs []*Violation, accepted bool) {
	add := func(site, rule, class, detail string) {
		c := mkCase("C18", site, nil, in, nil)
		c.Extra = map[string]any{"src": srcOffs, "tgt": tgtOffs, "span": span}
		vs = append(vs, &Violation{Property: "C18", Site: site, Rule: rule, Class: class, Detail: detail, Case: c})
	}
	defer recoverTo4("AdjustOffs", add)
	var u0 sipsp.PsipURI
	if e, _ := sipsp.ParseURI(in, &u0); e != 0 {
		return
	}
	accepted = true
	L := len(in)
	// views on the freshly parsed URI
	long, short := u0.Long(), u0.Short()
	lastNE := 0
	for i, f := range uriComps(&u0) {
		if f.Len > 0 {
			lastNE = i
		}
	}
	le := int(uriComps(&u0)[lastNE].Offs + uriComps(&u0)[lastNE].Len)
	if int(long.Offs) != 0 || int(long.Len) != le {
		add("Long", "long-view-scheme-through-last-non-empty", compNames[lastNE], fmt.Sprintf("Long=%v want [0,%d)", long, le))
	}
	if !bytes.Equal(u0.Flat(in), in[:le]) {
		add("Flat", "flat-is-bytes-of-long", "flat", fmt.Sprintf("Flat=%q", u0.Flat(in)))
	}
	se := 0
	switch {
	case u0.Port.Len > 0:
		se = int(u0.Port.Offs + u0.Port.Len)
	case u0.Host.Len > 0:
		se = int(u0.Host.Offs + u0.Host.Len)
	case u0.User.Len > 0:
		se = int(u0.User.Offs + u0.User.Len)
	}
	if int(short.Offs) != 0 || int(short.Len) != se || se > le {
		cl := "short"
		if u0.URIType == sipsp.TELuri && bytes.IndexByte(in, '@') >= 0 {
			cl = "tel-uri-with-userinfo"
		}
		add("Short", "short-view-stops-at-host-port-prefix-of-long", cl, fmt.Sprintf("Short=%v want [0,%d) long end %d", short, se, le))
	}
	ut := u0
	ut.Truncate()
	want := u0
	want.Params, want.Headers = sipsp.PField{}, sipsp.PField{}
	if ut != want {
		add("Truncate", "truncate-removes-exactly-params-and-headers", "truncate", fmt.Sprintf("%+v", ut))
	}
	// optional first relocation so that the source is at a non-zero offset
	u := u0
	cur := 0
	if srcOffs > 0 {
		var ok bool
		_, pm := guarded(func() string {
			ok = u.AdjustOffs(sipsp.PField{Offs: sipsp.OffsT(srcOffs), Len: sipsp.OffsT(L)})
			return ""
		})
		if pm != "" || !ok {
			add("AdjustOffs", "exact-span-accepted", "first-move", fmt.Sprintf("ok=%v %s", ok, pm))
			return
		}
		cur = srcOffs
	}
	before := u
	var ok bool
	_, pm := guarded(func() string {
		ok = u.AdjustOffs(sipsp.PField{Offs: sipsp.OffsT(tgtOffs), Len: sipsp.OffsT(span)})
		return ""
	})
	if pm != "" {
		cl := "span>=len"
		if span < L {
			cl = "span<len"
		}
		add("AdjustOffs", "no-panic", cl, "panic: "+pm)
		return
	}
	if span < L {
		if ok {
			add("AdjustOffs", "short-span-refused", "accepted", fmt.Sprintf("span %d < len %d accepted", span, L))
		} else if u != before {
			add("AdjustOffs", "refusal-leaves-structure-intact", "modified", fmt.Sprintf("%+v -> %+v", before, u))
		}
		return
	}
	if !ok {
		add("AdjustOffs", "sufficient-span-accepted", "refused", fmt.Sprintf("span %d >= len %d refused", span, L))
		return
	}
	// every component denotes the same bytes in the target buffer
	tb := make([]byte, tgtOffs+L)
	copy(tb[tgtOffs:], in)
	o0 := uriComps(&u0)
	for i, f := range uriComps(&u) {
		if !present(*o0[i]) {
			if present(*f) && i != 0 {
				add("AdjustOffs", "absent-stays-absent", compNames[i], fmt.Sprintf("%s became %v", compNames[i], *f))
			}
			continue
		}
		if int(f.Offs)+int(f.Len) > len(tb) || !bytes.Equal(f.Get(tb), o0[i].Get(in)) || int(f.Offs) != int(o0[i].Offs)+tgtOffs {
			add("AdjustOffs", "component-denotes-same-bytes", compNames[i], fmt.Sprintf("%s %v (was %v, moved %d->%d)", compNames[i], *f, *o0[i], cur, tgtOffs))
		}
	}
	if u.PortNo != u0.PortNo || u.URIType != u0.URIType {
		add("AdjustOffs", "non-positional-values-unchanged", "scalar", "")
	}
	// the derived views of the relocated URI denote the same text as before, at the new position
	l2, s2 := u.Long(), u.Short()
	if int(l2.Offs) != tgtOffs || l2.Len != long.Len || int(s2.Offs) != tgtOffs || s2.Len != short.Len {
		cl := "sip"
		if u0.URIType == sipsp.TELuri {
			cl = "tel"
		}
		add("Short/Long", "views-of-relocated-uri", cl, fmt.Sprintf("at %d: Long=%v Short=%v, at 0: Long=%v Short=%v", tgtOffs, l2, s2, long, short))
	} else if !bytes.Equal(u.Flat(tb), u0.Flat(in)) {
		add("Flat", "views-of-relocated-uri", "flat", "")
	}
	return
}

func checkC18(r *Run) {
	r.Assume = []string{"URIs: every accepted string of the C14 space up to the stated length plus the C15 family", "target offset + span <= 65535 (16-bit addressing limit)"}
	sig := []byte("a1:@;?&=[].")
	L := r.pick(6, 7)
	tgts := func(l int) []int { return []int{0, 1, 7, 255, 256, 65535 - l - 3, 65535 - l} }
	light := false
	run := func(c *enumCtx, s []byte) {
		n := 0
		acc := false
		if light && len(s) > 4+L-1 {
			// longest strings: views and the relocations around the URI length only (budget)
			for _, sp := range []int{len(s) - 1, len(s), len(s) + 1} {
				vs, a := evalC18(s, 0, 7, sp)
				acc = a
				if !a {
					break
				}
				n++
				for _, v := range vs {
					r.Col.add(v)
				}
			}
			c.st.Evals++
			if acc {
				c.st.Nontrivial++
				c.st.States++
				c.st.Transitions += int64(n)
			}
			return
		}
		for si, src := range []int{0, 9, 65535 - len(s), 65535 - len(s) - 2} {
			for ti, tg := range tgts(len(s)) {
				for span := 0; span <= len(s)+3; span++ {
					if tg+span > 65535 {
						continue
					}
					// every span for the first source offset and two target offsets; elsewhere the spans around the
					// URI length (where acceptance flips) and the extremes
					if !(si == 0 && ti <= 2) && span != 0 && span < len(s)-2 {
						continue
					}
					vs, a := evalC18(s, src, tg, span)
					acc = a
					if !a {
						break
					}
					n++
					for _, v := range vs {
						r.Col.add(v)
					}
				}
				if !acc {
					break
				}
			}
			if !acc {
				break
			}
		}
		c.st.Evals++
		if acc {
			c.st.Nontrivial++
			c.st.States++
			c.st.Transitions += int64(n)
			c.st.Outcomes["accepted-uri"]++
		} else {
			c.st.Outcomes["rejected-uri"]++
		}
	}
	light = true
	for _, sch := range []string{"sip:", "sips:", "tel:"} {
		enumStrings(r, sig, 1, L, []byte(sch), run)
	}
	light = false
	fam := c15Family(r.pick(200, 1000))
	parallelFor(r, len(fam), func(c *enumCtx, i int) { run(c, []byte(fam[i].String())) })
	// explicit ports whose value is 0, empty components, numeric hosts: the views are defined by the text, not by numbers
	c0 := &enumCtx{r: r, st: newStats()}
	for _, u := range []string{"sip:alice@example.com:0;transport=udp", "sip:h:0", "sip:h:00", "sips:u:p@h:000?x=1", "sip:u@h:0?a=1", "sip:1:0", "sip:h:0;", "sip:h:;p", "sip:u@0:0;0?0"} {
		run(c0, []byte(u))
	}
	r.St.merge(c0.st)
	if !r.quick() {
		// every target offset for 100 URIs
		parallelFor(r, 100, func(c *enumCtx, i int) {
			s := []byte(fam[i*7%len(fam)].String())
			for tg := 0; tg+len(s) <= 65535; tg++ {
				for _, span := range []int{len(s) - 1, len(s)} {
					vs, _ := evalC18(s, 0, tg, span)
					c.st.Transitions++
					for _, v := range vs {
						r.Col.add(v)
					}
				}
			}
		})
	}
	r.St.sample(fam[3].String())
}

func init() {
	replayers["C18"] = func(prop string, c *Case) []*Violation {
		vs, _ := evalC18(c.input(), exInt(c.Extra, "src"), exInt(c.Extra, "tgt"), exInt(c.Extra, "span"))
		return vs
	}
	register("C18", &checkDef{fn: checkC18,
		rule:        "E4: every accepted URI of the bounded space x source offset {0,9,65535-len,65533-len} x target offsets {0,1,7,255,256,65532-len,65535-len} x every span 0..len+3 through AdjustOffs, plus Long/Short/Flat/Truncate; oracle by construction (same bytes in the target buffer, absent stays absent, refusal leaves the structure intact); states = accepted URIs, transitions = relocations; non-trivial = accepted URI",
		quickBudget: 120 * time.Second, thorBudget: 20 * time.Minute})
}
