package main

// Violations, replay files, known findings and evidence files.

import (
	"crypto/sha1"
	"encoding/base64"
	"encoding/hex"
	"encoding/json"
	"fmt"
	"os"
	"path/filepath"
	"sort"
	"strings"
	"sync"
	"time"
	"unicode/utf8"
)

var verifDir = "/verif"

// Case is the replayable description of one explored case.
type Case struct {
	Kind   string         `json:"kind"`             // replay kind (registered in replayers)
	Driver string         `json:"driver,omitempty"` // driver / API name
	Cfg    *Cfg           `json:"cfg,omitempty"`
	Input  string         `json:"input_b64,omitempty"`
	Text   string         `json:"input_printable,omitempty"`
	Cuts   []int          `json:"cuts,omitempty"` // chunk schedule: prefix lengths of successive calls
	Extra  map[string]any `json:"extra,omitempty"`
}

func (c *Case) input() []byte {
	b, _ := base64.StdEncoding.DecodeString(c.Input)
	return b
}

func mkCase(kind, driver string, cfg *Cfg, in []byte, cuts []int) *Case {
	c := &Case{Kind: kind, Driver: driver, Input: base64.StdEncoding.EncodeToString(in), Text: fmt.Sprintf("%q", in)}
	if cfg != nil {
		cc := *cfg
		c.Cfg = &cc
	}
	c.Cuts = append([]int(nil), cuts...)
	return c
}

// Violation is one property violation found on the real code.
type Violation struct {
	Property string `json:"property"`
	Site     string `json:"site"`  // API / driver
	Rule     string `json:"rule"`  // oracle clause
	Class    string `json:"class"` // normalised shape
	Detail   string `json:"detail"`
	Case     *Case  `json:"case"`
}

func (v *Violation) id() string { return v.Property + "|" + v.Site + "|" + v.Rule + "|" + v.Class }

type vioEntry struct {
	v     *Violation
	count int64
	alts  []*Violation // a few more cases of the same class (tried when the smallest does not reproduce sequentially)
}

// Collector gathers violations from all workers, one entry per class.
type Collector struct {
	mu sync.Mutex
	m  map[string]*vioEntry
}

func newCollector() *Collector { return &Collector{m: map[string]*vioEntry{}} }

func caseLess(a, b *Case) bool {
	ai, bi := a.input(), b.input()
	if len(ai) != len(bi) {
		return len(ai) < len(bi)
	}
	if len(a.Cuts) != len(b.Cuts) {
		return len(a.Cuts) < len(b.Cuts)
	}
	if s := strings.Compare(string(ai), string(bi)); s != 0 {
		return s < 0
	}
	return fmt.Sprint(a.Cuts, a.Cfg) < fmt.Sprint(b.Cuts, b.Cfg)
}

func (c *Collector) add(v *Violation) {
	c.mu.Lock()
	defer c.mu.Unlock()
	e := c.m[v.id()]
	if e == nil {
		c.m[v.id()] = &vioEntry{v: v, count: 1}
		return
	}
	e.count++
	if caseLess(v.Case, e.v.Case) {
		e.v, v = v, e.v
	}
	if len(e.alts) < 6 {
		e.alts = append(e.alts, v)
	}
}

func (c *Collector) seen(id string) bool {
	c.mu.Lock()
	defer c.mu.Unlock()
	return c.m[id] != nil
}

func (c *Collector) sorted() []*vioEntry {
	c.mu.Lock()
	defer c.mu.Unlock()
	var l []*vioEntry
	for _, e := range c.m {
		l = append(l, e)
	}
	sort.Slice(l, func(i, j int) bool { return l[i].v.id() < l[j].v.id() })
	return l
}

// ---- known findings --------------------------------------------------------

type Finding struct {
	Status   string `json:"status"` // "open" or "fixed"
	Property string `json:"property"`
	Site     string `json:"site"`
	Rule     string `json:"rule"`
	Class    string `json:"class"`
	What     string `json:"what"`
	Commit   string `json:"commit,omitempty"`
	Line     string `json:"line,omitempty"` // the "fixed: property=... " record
}

func loadFindings() []Finding {
	var fs struct {
		Findings []Finding `json:"findings"`
	}
	b, err := os.ReadFile(filepath.Join(verifDir, "known_findings.json"))
	if err != nil {
		return nil
	}
	if err := json.Unmarshal(b, &fs); err != nil {
		fmt.Fprintf(os.Stderr, "known_findings.json: %v\n", err)
		os.Exit(2)
	}
	return fs.Findings
}

func matchFinding(fs []Finding, v *Violation) *Finding {
	for i := range fs {
		f := &fs[i]
		if f.Status == "open" && f.Property == v.Property && f.Site == v.Site && f.Rule == v.Rule && f.Class == v.Class {
			return f
		}
	}
	return nil
}

// ---- evidence --------------------------------------------------------------

type Evidence struct {
	PropertyID  string         `json:"property_id"`
	Tier        string         `json:"tier"`
	Seed        int            `json:"seed"`
	Level       string         `json:"level"`
	Coverage    map[string]any `json:"coverage"`
	Assumptions []string       `json:"assumptions"`
	WallS       float64        `json:"wall_s"`
	Violations  int            `json:"violations"`
}

// Stats are the counters every exploration maintains (atomically added to by workers).
type Stats struct {
	mu          sync.Mutex
	States      int64 // trie nodes + distinct extra suspended/dirty states
	Transitions int64 // real-code executions checked against the oracle
	Evals       int64 // cases (inputs / histories / pairs) evaluated
	Nontrivial  int64 // distinct non-trivial cases by the check's rule
	Outcomes    map[string]int64
	Samples     []any
	Extra       map[string]any
	CapsHit     []string
	Exhaustive  bool
}

func newStats() *Stats {
	return &Stats{Outcomes: map[string]int64{}, Extra: map[string]any{}, Exhaustive: true}
}

func (s *Stats) merge(o *Stats) {
	s.mu.Lock()
	defer s.mu.Unlock()
	s.States += o.States
	s.Transitions += o.Transitions
	s.Evals += o.Evals
	s.Nontrivial += o.Nontrivial
	for k, v := range o.Outcomes {
		s.Outcomes[k] += v
	}
	for _, x := range o.Samples {
		if len(s.Samples) < 12 {
			s.Samples = append(s.Samples, x)
		}
	}
	for k, v := range o.Extra {
		switch nv := v.(type) {
		case int64:
			if ov, ok := s.Extra[k].(int64); ok {
				if strings.HasPrefix(k, "max_") {
					if nv > ov {
						s.Extra[k] = nv
					}
				} else {
					s.Extra[k] = ov + nv
				}
			} else {
				s.Extra[k] = nv
			}
		default:
			s.Extra[k] = v
		}
	}
	s.CapsHit = append(s.CapsHit, o.CapsHit...)
	if !o.Exhaustive {
		s.Exhaustive = false
	}
}

func (s *Stats) outcome(k string) { s.Outcomes[k]++ }
func (s *Stats) addExtra(k string, n int64) {
	if v, ok := s.Extra[k].(int64); ok {
		s.Extra[k] = v + n
	} else {
		s.Extra[k] = n
	}
}
func (s *Stats) maxExtra(k string, n int64) {
	if v, ok := s.Extra[k].(int64); !ok || n > v {
		s.Extra[k] = n
	}
}
func (s *Stats) sample(x any) {
	if len(s.Samples) < 6 {
		s.Samples = append(s.Samples, x)
	}
}

// Run is the context of one `mc check`.
type Run struct {
	Prop     string
	Tier     string
	Seed     int
	Start    time.Time
	Deadline time.Time
	Col      *Collector
	St       *Stats
	Rule     string
	Bounds   map[string]any
	Assume   []string
	Workers  int
}

func (r *Run) quick() bool { return r == nil || r.Tier == "quick" }

func (r *Run) expired() bool { return time.Now().After(r.Deadline) }

func (r *Run) pick(q, t int) int {
	if r.quick() {
		return q
	}
	return t
}

// finish writes evidence, prints findings/violations and returns the exit code.
func (r *Run) finish() int {
	fs := loadFindings()
	var known, fresh []*vioEntry
	for _, e := range r.Col.sorted() {
		if e.v.Property != r.Prop {
			// violations of another property surfaced while exploring: report under the running check only
			// if they are its own; others are printed as notes.
			fmt.Printf("NOTE: while checking %s saw %s (%s %s %s) x%d – reported by its own check\n", r.Prop, e.v.Property, e.v.Site, e.v.Rule, e.v.Class, e.count)
			continue
		}
		if f := matchFinding(fs, e.v); f != nil {
			known = append(known, e)
		} else {
			fresh = append(fresh, e)
		}
	}
	code := 0
	var knownList []string
	for _, e := range known {
		fmt.Printf("KNOWN-FINDING: property=%s %s %s %s x%d e.g. %s\n", e.v.Property, e.v.Site, e.v.Rule, e.v.Class, e.count, e.v.Case.Text)
		knownList = append(knownList, fmt.Sprintf("%s/%s/%s x%d", e.v.Site, e.v.Rule, e.v.Class, e.count))
	}
	os.MkdirAll(filepath.Join(verifDir, "replays"), 0o755)
	unstable := 0
	dupUnstable := false
	for _, e := range fresh {
		// re-execute 5 times: must fail identically (guards against harness nondeterminism); if the smallest case of
		// the class does not reproduce, the other recorded cases of the class are tried
		stable := noReverify && e.v.Class == "hang"
		for _, cand := range append([]*Violation{e.v}, e.alts...) {
			if stable {
				break
			}
			ok := true
			for i := 0; i < 5; i++ {
				vs := replayCase(cand.Property, cand.Case)
				found := false
				for _, v2 := range vs {
					if v2.id() == cand.id() {
						found = true
					}
				}
				if !found {
					ok = false
					break
				}
			}
			if ok {
				e.v = cand
				stable = true
				break
			}
		}
		if !stable {
			// Every explored call is deterministic on its own objects. A violation seen during the parallel exploration
			// that does not reproduce when the same case is re-executed alone means that concurrently running calls
			// on distinct objects influenced one another (or the harness is wrong): that is C04's isolation clause.
			fmt.Printf("UNSTABLE: %s seen x%d during parallel exploration but not reproduced sequentially: %s\n", e.v.id(), e.count, e.v.Detail)
			if r.Prop != "C04" {
				fmt.Printf("NOTE: not reported under %s (not reproducible); cross-call interference is C04's subject\n", r.Prop)
				unstable++
				continue
			}
			orig := e.v
			e = &vioEntry{count: e.count, v: &Violation{Property: "C04", Site: "isolation/concurrent", Rule: "parallel-calls-on-distinct-objects-do-not-interfere",
				Class: "unstable-under-parallel-exploration", Detail: "not reproducible sequentially: " + orig.id() + ": " + orig.Detail,
				Case: &Case{Kind: "race", Driver: "concurrent", Text: orig.Case.Text, Extra: map[string]any{"secs": "3", "seen": orig.id()}}}}
			if dupUnstable {
				continue
			}
			dupUnstable = true
		}
		b, _ := json.MarshalIndent(e.v, "", " ")
		h := sha1.Sum([]byte(e.v.id()))
		p := filepath.Join(verifDir, "replays", fmt.Sprintf("%s-%x.json", e.v.Property, h[:5]))
		os.WriteFile(p, b, 0o644)
		fmt.Printf("VIOLATION property=%s replay=%s\n", e.v.Property, p)
		fmt.Printf("  site=%s rule=%s class=%s count=%d\n  input=%s cuts=%v cfg=%v\n  %s\n", e.v.Site, e.v.Rule, e.v.Class, e.count, e.v.Case.Text, e.v.Case.Cuts, e.v.Case.Cfg, e.v.Detail)
		code = 1
	}
	st := r.St
	cov := map[string]any{
		"states":                        st.States,
		"transitions":                   st.Transitions,
		"traces_validated_against_impl": st.Transitions,
		"evaluations":                   st.Evals,
		"distinct_nontrivial":           st.Nontrivial,
		"rule":                          r.Rule,
		"samples":                       st.Samples,
		"exhaustive":                    st.Exhaustive,
		"distinct_outcomes":             len(st.Outcomes),
		"outcomes":                      topOutcomes(st.Outcomes, 40),
		"bounds":                        r.Bounds,
		"caps_hit":                      st.CapsHit,
		"known_findings_seen":           knownList,
		"unstable_not_reproduced":       unstable,
		"explanation":                   "the implementation is the model: every transition is one call of the real exported function; traces_validated_against_impl equals transitions",
	}
	for k, v := range st.Extra {
		cov[k] = v
	}
	if len(st.Samples) == 0 {
		cov["samples"] = []any{"(none)"}
	}
	ev := Evidence{PropertyID: r.Prop, Tier: r.Tier, Seed: r.Seed, Level: "model_checking", Coverage: cov,
		Assumptions: r.Assume, WallS: time.Since(r.Start).Seconds(), Violations: len(fresh)}
	b, _ := json.MarshalIndent(ev, "", " ")
	os.MkdirAll(filepath.Join(verifDir, "evidence"), 0o755)
	if err := os.WriteFile(filepath.Join(verifDir, "evidence", r.Prop+".json"), b, 0o644); err != nil {
		fmt.Fprintln(os.Stderr, err)
		return 2
	}
	fmt.Printf("%s %s: states=%d transitions=%d evaluations=%d nontrivial=%d outcomes=%d exhaustive=%v known=%d violations=%d wall=%.1fs\n",
		r.Prop, r.Tier, st.States, st.Transitions, st.Evals, st.Nontrivial, len(st.Outcomes), st.Exhaustive, len(known), len(fresh), time.Since(r.Start).Seconds())
	return code
}

func topOutcomes(m map[string]int64, n int) map[string]int64 {
	type kv struct {
		k string
		v int64
	}
	var l []kv
	for k, v := range m {
		l = append(l, kv{k, v})
	}
	sort.Slice(l, func(i, j int) bool { return l[i].v > l[j].v || (l[i].v == l[j].v && l[i].k < l[j].k) })
	out := map[string]int64{}
	for i, e := range l {
		if i >= n {
			break
		}
		out[e.k] = e.v
	}
	return out
}

// replayers: kind -> function re-running one case and returning the violations it exhibits.
var replayers = map[string]func(prop string, c *Case) []*Violation{}

func replayCase(prop string, c *Case) (out []*Violation) {
	defer func() {
		if p := recover(); p != nil {
			// the library panicked while the case was re-executed: that is what this re-execution exhibits
			out = []*Violation{{Property: prop, Site: "library-call", Rule: "no-panic-while-checking", Class: "panic:" + panicClass(fmt.Sprint(p)), Detail: fmt.Sprintf("panic: %v", p), Case: c}}
		}
	}()
	f := replayers[c.Kind]
	if f == nil {
		fmt.Fprintf(os.Stderr, "no replayer for kind %q\n", c.Kind)
		os.Exit(2)
	}
	return f(prop, c)
}

// bstr is a string that survives JSON even when it is not valid UTF-8 (encoding/json would replace such bytes by
// U+FFFD, and a replayed case would then not be the case that was found): invalid strings are written as "\x00hex:<hex>".
type bstr string

func (b bstr) MarshalJSON() ([]byte, error) {
	if utf8.ValidString(string(b)) && !strings.HasPrefix(string(b), "\x00hex:") {
		return json.Marshal(string(b))
	}
	return json.Marshal("\x00hex:" + hex.EncodeToString([]byte(b)))
}

func (b *bstr) UnmarshalJSON(d []byte) error {
	var s string
	if err := json.Unmarshal(d, &s); err != nil {
		return err
	}
	if strings.HasPrefix(s, "\x00hex:") {
		raw, err := hex.DecodeString(s[5:])
		if err != nil {
			return err
		}
		s = string(raw)
	}
	*b = bstr(s)
	return nil
}

// exBstr reads a string stored as bstr in a case's Extra map (in memory: the bstr itself; from a replay file: its JSON form).
func exBstr(ex map[string]any, k string) string {
	switch v := ex[k].(type) {
	case bstr:
		return string(v)
	case string:
		if strings.HasPrefix(v, "\x00hex:") {
			if raw, err := hex.DecodeString(v[5:]); err == nil {
				return string(raw)
			}
		}
		return v
	}
	return ""
}

// recoverTo3 / recoverTo4 are deferred at the top of an evaluator: a panic of the library while the case is evaluated
// becomes a violation that carries the evaluator's own (replayable) case instead of an anonymous worker panic.
func recoverTo3(add func(rule, class, detail string)) {
	if p := recover(); p != nil {
		add("no-panic", "panic:"+panicClass(fmt.Sprint(p)), fmt.Sprintf("panic: %v", p))
	}
}

func recoverTo4(site string, add func(site, rule, class, detail string)) {
	if p := recover(); p != nil {
		add(site, "no-panic", "panic:"+panicClass(fmt.Sprint(p)), fmt.Sprintf("panic: %v", p))
	}
}

// remarshal converts a decoded-JSON value (or an in-memory struct) into dst.
func remarshal(src any, dst any) {
	b, _ := json.Marshal(src)
	json.Unmarshal(b, dst)
}

func sortStrings(s []string) { sort.Strings(s) }
