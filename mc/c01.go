package main

import (
	"bytes"
	"strings"
	"time"

	"github.com/intuitivelabs/sipsp"
)

// msgTrie: firstline · header{0..K} · blank · body, a node at every byte.
type msgTrie struct {
	FL    [][]byte
	Hdrs  [][]byte
	K     int
	Blank [][]byte
	Body  [][]byte
}

type msgTrieSt struct{ stage, n int }

func (m msgTrie) Root() any { return msgTrieSt{0, 0} }
func (m msgTrie) Expand(st any, depth int) []Frag {
	s := st.(msgTrieSt)
	var fr []Frag
	switch s.stage {
	case 0:
		for _, f := range m.FL {
			fr = append(fr, Frag{B: f, Next: msgTrieSt{1, 0}})
		}
	case 1:
		if s.n < m.K {
			for _, h := range m.Hdrs {
				fr = append(fr, Frag{B: h, Next: msgTrieSt{1, s.n + 1}})
			}
		}
		for _, b := range m.Blank {
			fr = append(fr, Frag{B: b, Next: msgTrieSt{2, 0}})
		}
	case 2:
		for _, b := range m.Body {
			if len(b) == 0 {
				continue
			}
			fr = append(fr, Frag{B: b, Next: msgTrieSt{3, 0}})
		}
	}
	return fr
}

var flineMenu = []string{
	"INVITE sip:a@b SIP/2.0\r\n",
	"REGISTER sip:r SIP/2.0\n",
	"OPTIONS sip:o SIP/2.0\rX-A: 1\r\n",
	"X a b\r\n",
	"SIP/2.0 200 OK\r\n",
	"SIP/2.0 180 \r\n",
	"sip/2.0 404 Not Found\n",
	"SIP/2.0 000 x\r\n",
	"INVITE  sip:a SIP/2.0\r\n",
	"SIP/2.0 20 OK\r\n",
	"\r\nINVITE sip:a@b SIP/2.0\r\n", // keep-alive CRLF in front of the start line (rejected by the library as it is)
	"\n\r\nSIP/2.0 200 OK\r\n",
}

var flineMenuQuick = []string{
	"INVITE sip:a@b SIP/2.0\r\n",
	"OPTIONS sip:o SIP/2.0\rX-A: 1\r\n",
	"SIP/2.0 200 OK\r\n",
	"sip/2.0 404 Not Found\n",
	"\r\nINVITE sip:a@b SIP/2.0\r\n",
}

var bodyMenu = []string{"", "ab", "abcdEXTRA", "\nb", "\r\n"} // incl. bodies that begin with a line end

// short messages for the single-substitution space (requests and replies, every line-end style, known and generic
// headers, a body)
var substMsgs = []string{
	"INVITE sip:a SIP/2.0\r\nf: \"A\" <sip:a@b>;tag=x\r\nl: 2\r\n\r\nab",
	"SIP/2.0 404 Not Found\r\nm: <sip:a>;q=0.7, sip:c;expires=5\r\nCSeq: 1 X\r\n\r\n",
	"SIP/2.0 180 Ringing\nv: SIP/2.0/UDP h;branch=z9hG4bK7\nContent-Length : 1\n\nx",
	"OPTIONS sip:o SIP/2.0\rTo: c <sip:c@d> ; tag=z\rExpires: 60\rX: a\r b\r\r\n",
	"REGISTER sip:r SIP/2.0\r\nP-Asserted-Identity: <sip:p@q>, <tel:+1>\r\ni: x@1.2.3.4\r\nContact: *\r\n\r\n",
	"BYE sip:b SIP/2.0\r\nCall-ID:\r\n a\r\nSubject: \r\nFrom: sip:a@b;tag=1;\r\n\r\n",
}

// fixed long messages (single-path tries); the repository's test messages are among them.
var longMsgs = []string{
	"INVITE sip:x@y.com SIP/2.0\r\nFrom: <a@foo.bar>;tag=1234\r\nTo:<x@y.com>\r\nCall-ID: a84b4c76e66710\r\nCSeq: 314159 INVITE\r\nVia: SIP/2.0/UDP 1.2.3.4;branch=z9hG4bKnashds8\r\nMax-Forwards: 70\r\nDate: Thu, 21 Feb 2002 13:02:03 GMT\r\nContent-Length: 12\r\n\r\nv=0\r\no=UserA\r\n",
	"REGISTER sip:registrar.biloxi.com SIP/2.0\r\nVia: SIP/2.0/UDP bobspc.biloxi.com:5060;branch=z9hG4bKnashds7\r\nMax-Forwards: 70\r\nTo: Bob <sip:bob@biloxi.com>\r\nFrom: Bob <sip:bob@biloxi.com>;tag=456248\r\nCall-ID: 843817637684230@998sdasdh09\r\nCSeq: 1826 REGISTER\r\nContact: <sip:bob@192.0.2.4>;expires=60, <sip:b2@h>;q=0.3;expires=7\r\nm: \"Q \\\"x\" <sip:q@h> ; expires = 5\r\nExpires: 7200\r\nContent-Length: 0\r\n\r\n",
	"SIP/2.0 200 OK\r\nVia: SIP/2.0/UDP h;branch=z9hG4bK1\r\nv: SIP/2.0/UDP h2\r\nf: <sip:a@b>;tag=1\r\nt: \"B\" <sip:c@d>;tag=2\r\ni: cid@h\r\nCSeq: 2 INVITE\r\nm: *\r\nP-Asserted-Identity: \"A\" <sip:a@b>, <tel:+123>\r\nP-Asserted-Identity: <sip:third@x>\r\nl: 4\r\n\r\nbodyEXTRA",
	"OPTIONS sip:o SIP/2.0\nFrom: sip:a@b;tag=1\nTo: sip:c@d\nCall-ID:\n x\nCSeq: 9\n OPTIONS\nX: folded\n value\n\tmore\nContact: <sip:a@b>,\n <sip:c@d>,\n <sip:e@f>\n\nrest-of-buffer-body",
	"INVITE sip:a SIP/2.0\r\nFrom: <sip:a@b>;tag=1\r\nFrom: <sip:second@b>;tag=2\r\nTo: <sip:c@d>\r\nCall-ID: 1\r\nCSeq: 1 INVITE\r\nContact: <sip:1@h>\r\nContact: <sip:2@h>;expires=1\r\nContact: <sip:3@h>,<sip:4@h>;expires=4294967295\r\nContent-Length: 99999999\r\n\r\n",
	"NOTIFY sip:n SIP/2.0\r\nH1: 1\r\nH2: 2\r\nH3: 3\r\nH4: 4\r\nH5: 5\r\nH6: 6\r\nH7: 7\r\nH8: 8\r\nH9: 9\r\nH10: 10\r\nH11: 11\r\nFrom: <sip:late@from>;tag=l\r\nContent-Length: 3\r\n\r\nabc",
	"BYE sip:b SIP/2.0\r\nFrom: <sip:a@b>>\r\n\r\n",
	"ACK sip:a SIP/2.0\r\nTo: \"never closed\r\n\r\n",
}

// long tokens: 300-byte method and URI, 260-byte header name, 300-byte value, 256-byte Call-ID, 255/256-byte tag and
// display name (explored under two configurations only: the path is ~2700 nodes long)
var longTokenMsg = strings.Repeat("M", 300) + " sip:" + strings.Repeat("u", 300) + "@h SIP/2.0\r\n" + strings.Repeat("N", 260) + ": " + strings.Repeat("v", 300) + "\r\nCall-ID: " + strings.Repeat("c", 256) +
	"\r\nFrom: \"" + strings.Repeat("d", 254) + "\" <sip:a@b>;tag=" + strings.Repeat("t", 255) + "\r\nTo: " + strings.Repeat("D", 256) + " <sip:c@d>;tag=" + strings.Repeat("T", 256) + ";" + strings.Repeat("p", 300) + "=" + strings.Repeat("q", 300) + "\r\nl: 0\r\n\r\n"

func msgCfgs(r *Run, full bool) []Cfg {
	var cfgs []Cfg
	hc := []int{-1, 0, 1, 2, 10, 11}
	vc := []int{-1, 0, 1, 11}
	if !full {
		// every flag setting over built-in arrays, every capacity pair under flags 0 and skip-body
		for f := uint(0); f < 4; f++ {
			cfgs = append(cfgs, Cfg{Flags: f, HdrCap: -1, ValCap: -1})
		}
		cfgs = append(cfgs, Cfg{Flags: 0, HdrCap: -1, ValCap: -1, Offs: 40, Junk: "crlf"})
		for _, h := range hc {
			for _, v := range vc {
				if h == -1 && v == -1 {
					continue
				}
				cfgs = append(cfgs, Cfg{Flags: 0, HdrCap: h, ValCap: v}, Cfg{Flags: 1, HdrCap: h, ValCap: v})
			}
		}
		return cfgs
	}
	for f := uint(0); f < 4; f++ {
		for _, h := range hc {
			for _, v := range vc {
				cfgs = append(cfgs, Cfg{Flags: f, HdrCap: h, ValCap: v})
				cfgs = append(cfgs, Cfg{Flags: f, HdrCap: h, ValCap: v, Offs: 3, Junk: "crlf"})
			}
		}
		// a message that follows an earlier one in the same buffer (start offset beyond the first-line look-ahead)
		cfgs = append(cfgs, Cfg{Flags: f, HdrCap: -1, ValCap: -1, Offs: 40, Junk: "crlf"}, Cfg{Flags: f, HdrCap: 2, ValCap: 1, Offs: 17, Junk: "a"})
	}
	return cfgs
}

func msgSpaces(r *Run) []space {
	noMore := []uint{uint(sipsp.SIPMsgNoMoreDataF)}
	var longs []TrieGen
	for _, m := range longMsgs {
		longs = append(longs, menuTrie{[][][]byte{{[]byte(m)}}})
	}
	fl, hm := flineMenu, hdrLineMenuFull
	if r.quick() {
		fl = flineMenuQuick
	}
	full := msgCfgs(r, true)
	red := msgCfgs(r, false)
	ltok := space{name: "msg/long-tokens", gen: menuTrie{[][][]byte{{[]byte(longTokenMsg)}}}, cfgs: []Cfg{{HdrCap: -1, ValCap: -1}, {HdrCap: 1, ValCap: 0, Flags: 1, Offs: 3, Junk: "a"}}, finalFlags: noMore, beyondErr: 1, beyondOk: 1, split: 1}
	// deviation-bounded exploration: every single-byte substitution (all 256 values) at every position of a few
	// short well-formed messages, a trie node at every byte (every chunk schedule of every variant)
	var subst []TrieGen
	for _, m := range substMsgs[:r.pick(4, len(substMsgs))] {
		subst = append(subst, substTrie{[]byte(m), all256(), 1})
	}
	sub1 := space{name: "msg/subst1x256", gen: unionTrie{subst}, cfgs: []Cfg{{HdrCap: -1, ValCap: -1}, {HdrCap: 2, ValCap: 1, Flags: uint(sipsp.SIPMsgSkipBodyF)}}, finalFlags: noMore, beyondErr: 1, beyondOk: 1, split: 1}
	// messages of about 63,000 bytes with one very long element each, chunk boundaries at doubling positions
	lchain := space{name: "msg/long-elements-63k", gen: unionTrie{longMsgChains()}, cfgs: []Cfg{{HdrCap: -1, ValCap: -1}, {HdrCap: 2, ValCap: 1, Offs: 3, Junk: "a"}}, finalFlags: noMore, beyondErr: 1, beyondOk: 1, split: 1}
	if r.quick() {
		// quick: offsets 0 only for the long messages, both offsets on the shallow trie
		var f0 []Cfg
		for _, c := range full {
			if c.Offs == 0 || c.Offs >= 17 {
				f0 = append(f0, c)
			}
		}
		// (the single long paths last: if distinct suspended states do not merge - e.g. after a refactoring that adds a
		// per-call counter to the state - they are the ones that use up the budget)
		sp := []space{
			{name: "msg/trie<=1hdr", gen: msgTrie{strs(fl), strs(hm), 1, strs(blankMenu), strs(bodyMenu)}, cfgs: full, finalFlags: noMore, beyondErr: 1, beyondOk: 1, split: 2},
			{name: "msg/trie<=2hdr", gen: msgTrie{strs(fl[:2]), strs(hdrLineMenuQuick), 2, strs(blankMenu[:2]), strs(bodyMenu)}, cfgs: red, finalFlags: noMore, beyondErr: 1, beyondOk: 1, split: 2},
			sub1,
			{name: "msg/long", gen: unionTrie{longs}, cfgs: f0, finalFlags: noMore, beyondErr: 1, beyondOk: 1, split: 1},
			lchain, ltok,
		}
		return sp
	}
	return []space{
		sub1,
		{name: "msg/long", gen: unionTrie{longs}, cfgs: full, finalFlags: noMore, beyondErr: 1, beyondOk: 1, split: 1},
		{name: "msg/trie<=1hdr", gen: msgTrie{strs(fl), strs(hm), 1, strs(blankMenu), strs(bodyMenu)}, cfgs: full, finalFlags: noMore, beyondErr: 1, beyondOk: 1, split: 2},
		{name: "msg/trie<=2hdr", gen: msgTrie{strs(fl[:5]), strs(hm), 2, strs(blankMenu), strs(bodyMenu)}, cfgs: red, finalFlags: noMore, beyondErr: 1, beyondOk: 1, split: 2},
		{name: "msg/trie<=3hdr", gen: msgTrie{strs(fl[:2]), strs(hdrLineMenuQuick[:12]), 3, strs(blankMenu[:1]), strs(bodyMenu)}, cfgs: red, finalFlags: noMore, beyondErr: 1, beyondOk: 1, split: 2},
		lchain, ltok,
	}
}

func checkC01(r *Run) {
	r.Assume = []string{"messages are drawn from the fragment menus listed in mc/c01.go and mc/spaces.go (a trie node at every byte)",
		"deeper tries use the reduced configuration set (every flag setting over built-in arrays, every capacity pair under flags 0 and skip-body)",
		"buffers <= 65535 bytes", "state key = every leaf field of PSIPMsg incl. unexported ones"}
	exploreSpaces(r, msgDrv, msgSpaces(r), Oracles{Schedule: true}, nil)
}

// ---- C03 exemption for messages without Content-Length (body = rest of buffer) ----

func msgNoCLenExempt(o any, flags uint, text []byte) bool {
	if flags&uint(sipsp.SIPMsgSkipBodyF|sipsp.SIPMsgCLenReqF) != 0 {
		return false
	}
	// "a message without Content-Length" is decided from the text, not from what the parser made of it: if the
	// header block has a Content-Length line that the parser did not take as one, nothing is exempt
	return !o.(*sipsp.PSIPMsg).PV.CLen.Parsed() && !textHasCLen(text)
}

// textHasCLen: does the header block (up to the first empty line) contain a line whose name - the text before the
// first ':' without surrounding SP/HT - is Content-Length or l, in any letter case?
func textHasCLen(text []byte) bool {
	first := true
	for len(text) > 0 {
		e := bytes.IndexAny(text, "\r\n")
		line := text
		if e >= 0 {
			line = text[:e]
			if text[e] == '\r' && e+1 < len(text) && text[e+1] == '\n' {
				e++
			}
			text = text[e+1:]
		} else {
			text = nil
		}
		if first {
			first = false
			continue // the first line
		}
		if len(line) == 0 {
			return false // end of the header block
		}
		if c := bytes.IndexByte(line, ':'); c > 0 {
			n := strings.ToLower(strings.Trim(string(line[:c]), " \t"))
			if n == "content-length" || n == "l" {
				return true
			}
		}
	}
	return false
}

func msgBodyLines(l string) bool {
	return strings.HasPrefix(l, ".Body=") || strings.HasPrefix(l, ".RawMsg=") || strings.HasPrefix(l, ".Buf=")
}

func init() {
	register("C01", &checkDef{fn: checkC01,
		rule:        "E1 prefix-trie explorer on ParseSIPMsg over fragment tries (firstline·header*·blank·body, node at every byte): every suspended state reachable at a prefix by any schedule is resumed to every longer prefix and compared with a fresh one-shot parse (verdict, offset, and all caller-visible values when definitive); no-more-data tried as final-call flag at every node; non-trivial = message whose path had >=1 suspension and a definitive verdict",
		quickBudget: 240 * time.Second, thorBudget: 40 * time.Minute})
}
