package main

// E3: cooperative scheduler exploring in-call preemptions at scheduling points (DESIGN §2.4).
//
// /verif/instr audits the package-level state of /repo on every C04 run. If no package-level variable is written
// after init() (the situation on the unchanged tree), calls on distinct objects share no mutable state, every
// interleaving of their instructions is equivalent to an interleaving of whole calls, and the call-level searches
// (c04Isolation, c04PairInterleave) are complete. Otherwise instr generates an overlay that calls
// verifPoint(label) before every statement touching such a variable, run.sh builds this checker with
// `-overlay ... -tags verifhook`, and the explorer below enumerates every schedule of the sessions with up to
// e3Bound preemptions at those points, comparing each session's transcript with its solo run.

import (
	"encoding/json"
	"fmt"
	"os"
	"path/filepath"
	"strings"

	"github.com/intuitivelabs/sipsp"
)

// set by c04_e3_hook.go (build tag verifhook)
var e3SetHook func(f func(string))

type e3Session struct {
	name  string
	steps []func() string
	reset func()
}

type e3Event struct {
	sess  int
	label string
	done  bool
	out   string // transcript line finished by this event ("" for a mere scheduling point)
	panic string
}

type e3Point struct {
	enabled []int
	chosen  int
	running int // session that was running before this point (-1 none)
}

type e3Exec struct {
	sess   []*e3Session
	resume []chan struct{}
	events chan e3Event
	cur    int
}

// run executes one schedule: prefix[i] is the index into the enabled list at point i; later points take choice 0
// (keep running the current session if it is still enabled, else the lowest id).
func e3Run(sess []*e3Session, prefix []int) (points []e3Point, trans [][]string, panics []string, err error) {
	x := &e3Exec{sess: sess, events: make(chan e3Event), cur: -1}
	n := len(sess)
	trans = make([][]string, n)
	live := make([]bool, n)
	x.resume = make([]chan struct{}, n)
	for i := range sess {
		sess[i].reset()
		x.resume[i] = make(chan struct{})
		live[i] = true
		go func(i int) {
			<-x.resume[i]
			defer func() {
				if p := recover(); p != nil {
					x.events <- e3Event{sess: i, done: true, panic: fmt.Sprint(p)}
				}
			}()
			for k, st := range sess[i].steps {
				out := st()
				last := k == len(sess[i].steps)-1
				x.events <- e3Event{sess: i, label: "call-end", done: last, out: out}
				if !last {
					<-x.resume[i]
				}
			}
		}(i)
	}
	e3SetHook(func(label string) {
		i := x.cur
		if i < 0 {
			return
		}
		x.events <- e3Event{sess: i, label: label}
		<-x.resume[i]
	})
	defer e3SetHook(nil)
	running := -1
	for step := 0; ; step++ {
		var en []int
		if running >= 0 && live[running] {
			en = append(en, running)
		}
		for i := 0; i < n; i++ {
			if live[i] && i != running {
				en = append(en, i)
			}
		}
		if len(en) == 0 {
			break
		}
		c := 0
		if step < len(prefix) {
			c = prefix[step]
			if c >= len(en) {
				return nil, nil, nil, fmt.Errorf("schedule diverged at point %d: choice %d of %d enabled", step, c, len(en))
			}
		}
		points = append(points, e3Point{enabled: en, chosen: c, running: running})
		s := en[c]
		x.cur = s
		x.resume[s] <- struct{}{}
		ev := <-x.events
		x.cur = -1
		if ev.sess != s {
			return nil, nil, nil, fmt.Errorf("event from session %d while %d was scheduled", ev.sess, s)
		}
		if ev.out != "" || ev.label == "call-end" {
			trans[s] = append(trans[s], ev.out)
		}
		if ev.panic != "" {
			panics = append(panics, fmt.Sprintf("%s: %s", sess[s].name, ev.panic))
		}
		if ev.done {
			live[s] = false
		}
		running = s
		if step > 100000 {
			return nil, nil, nil, fmt.Errorf("schedule too long")
		}
	}
	return points, trans, panics, nil
}

func e3Sessions() []*e3Session {
	rich1 := "INVITE sip:a@b SIP/2.0\r\nFrom: \"A\" <sip:a@b>;tag=1\r\nP-Asserted-Identity: <sip:p1@q>, <sip:p2@q>, <tel:+3>;x=y\r\nContact: <sip:x@y>;expires=5, \"q,\" <sip:z@w>;q=0.5\r\nH1: 1\r\nl: 0\r\n\r\n"
	rich2 := "SIP/2.0 200 OK\r\nt: <sip:q@r>\r\nP-Asserted-Identity: <sip:a@1>,<sip:b@2>,<sip:c@3>\r\nm: *\r\nX1: a\r\nExpires: 0\r\n\r\n"
	mk := func(name, msg string, cut int) *e3Session {
		s := &e3Session{name: name}
		var m *sipsp.PSIPMsg
		buf := []byte(msg)
		offs := 0
		s.reset = func() { m = new(sipsp.PSIPMsg); m.Init(nil, mkHdrs(2), mkVals(1)); offs = 0 }
		s.steps = []func() string{
			func() string { n, e := sipsp.ParseSIPMsg(buf[:cut], 0, m, 0); offs = n; return fmt.Sprint(n, e) },
			func() string {
				n, e := sipsp.ParseSIPMsg(buf, offs, m, 0)
				sig, se := sipsp.GetMsgSig(m)
				return fmt.Sprint(n, e) + msgDrv.obs(m, buf) + sig.String() + fmt.Sprint(se)
			},
		}
		return s
	}
	fn := func(name string, fs ...func() string) *e3Session {
		return &e3Session{name: name, steps: fs, reset: func() {}}
	}
	// every non-parsing entry point appears in two sessions with different arguments (X/a and X/b), so that a scratch
	// area or cache shared by two calls of the same function is exercised with different data on each side
	ua1, ua2 := []byte("sip:u@H.com:5060;transport=udp;x=1?a=1&b=2"), []byte("SIP:u@h.COM:5060;X=1;transport=UDP?b=2&a=1")
	ub1, ub2 := []byte("sips:v:p@[::1];ttl=1;maddr=m;y?c=3"), []byte("sips:v:p@[::1];y;maddr=m?c=4&d=5")
	out := []*e3Session{
		mk("msg/a", rich1, 104),
		mk("msg/b", rich2, 75),
		fn("uricmp/a", func() string { ok, e, w := sipsp.URIRawCmp(ua1, ua2, 0); return fmt.Sprint(ok, e, w) },
			func() string {
				var r1, r2 sipsp.PsipURI
				ok, e, w := sipsp.URIParseCmp(ua2, ua1, sipsp.URICmpSkipHeaders, &r1, &r2)
				return fmt.Sprint(ok, e, w, r1, r2)
			}),
		fn("uricmp/b", func() string { ok, e, w := sipsp.URIRawCmp(ub1, ub2, 0); return fmt.Sprint(ok, e, w) },
			func() string {
				var r1, r2 sipsp.PsipURI
				ok, e, w := sipsp.URIParseCmp(ub2, ub1, sipsp.URICmpSkipParams, &r1, &r2)
				return fmt.Sprint(ok, e, w, r1, r2)
			}),
		fn("params/a", func() string {
			ok, e := sipsp.URIParamsEq([]byte("transport=udp;x=1"), 0, []byte("X=1;transport=UDP"), 0)
			return fmt.Sprint(ok, e)
		},
			func() string {
				ok, e := sipsp.URIParamsEq([]byte("lr;a=\"b\""), 0, []byte("a=\"b\";lr;c"), 0)
				return fmt.Sprint(ok, e)
			}),
		fn("params/b", func() string {
			ok, e := sipsp.URIParamsEq([]byte("ttl=1;maddr=m;y"), 0, []byte("y;maddr=m"), 0)
			return fmt.Sprint(ok, e)
		},
			func() string {
				ok, e := sipsp.URIParamsEq([]byte("method=INVITE;q=1;r=2;s=3"), 0, []byte("s=4"), 0)
				return fmt.Sprint(ok, e)
			}),
		fn("hdrs/a", func() string {
			ok, e := sipsp.URIHdrsEq([]byte("a=1&b=2"), 0, []byte("b=2&a=1"), 0)
			return fmt.Sprint(ok, e)
		},
			func() string {
				ok, e := sipsp.URIHdrsEq([]byte("x=\"q\""), 0, []byte("X=\"q\""), 0)
				return fmt.Sprint(ok, e)
			}),
		fn("hdrs/b", func() string {
			ok, e := sipsp.URIHdrsEq([]byte("c=3&d=4&e=5"), 0, []byte("c=3&d=9&e=5"), 0)
			return fmt.Sprint(ok, e)
		},
			func() string { ok, e := sipsp.URIHdrsEq([]byte("k"), 0, []byte("k&l"), 0); return fmt.Sprint(ok, e) }),
		fn("sigs/a", func() string { s, l := sipsp.GetCallIDSig([]byte("abc-def@10.0.0.1")); return fmt.Sprint(s, l) },
			func() string {
				v, vl := sipsp.GetViaBrSig([]byte("SIP/2.0/UDP h;branch=z9hG4bKdeadbeef;rport"))
				return fmt.Sprint(v, vl)
			}),
		fn("sigs/b", func() string { s, l := sipsp.GetCallIDSig([]byte("[2001:db8::1]_X+Y/Z=")); return fmt.Sprint(s, l) },
			func() string {
				v, vl := sipsp.GetViaBrSig([]byte("SIP/2.0/TCP o;ttl=1;branch=a.b-c_d"))
				return fmt.Sprint(v, vl)
			}),
		fn("lookup/a", func() string {
			return fmt.Sprint(sipsp.GetHdrType([]byte("Contact")), sipsp.GetMethodNo([]byte("INVITE")))
		},
			func() string {
				var d [4]byte
				ok, o, n := sipsp.ContainsIP4([]byte("x 192.168.1.20 y"), d[:])
				return fmt.Sprint(ok, o, n, d)
			}),
		fn("lookup/b", func() string {
			return fmt.Sprint(sipsp.GetHdrType([]byte("call-id")), sipsp.GetMethodNo([]byte("BYE")))
		},
			func() string {
				var d [16]byte
				ok, o, n := sipsp.ContainsIP6([]byte("a [2001:db8::1] b"), d[:])
				return fmt.Sprint(ok, o, n, d)
			}),
		fn("uri/a", func() string {
			var u sipsp.PsipURI
			e, n := sipsp.ParseURI(ua1, &u)
			ok := u.AdjustOffs(sipsp.PField{Offs: 100, Len: sipsp.OffsT(len(ua1))})
			return fmt.Sprint(e, n, ok, u)
		},
			func() string {
				var p sipsp.PTokParam
				o, e := sipsp.ParseTokenParam([]byte("branch = \"q\\\"x\" ; lr,next"), 0, &p, sipsp.POptTokCommaTermF)
				return fmt.Sprint(o, e, p.Name, p.Val)
			}),
		fn("uri/b", func() string {
			var u sipsp.PsipURI
			e, n := sipsp.ParseURI(ub1, &u)
			ok := u.AdjustOffs(sipsp.PField{Offs: 7, Len: sipsp.OffsT(len(ub1) - 1)})
			return fmt.Sprint(e, n, ok, u)
		},
			func() string {
				var fb sipsp.PFromBody
				o, e := sipsp.ParseFromVal([]byte("\"A B\" <sip:a@b>;tag=x\r\nX"), 0, &fb)
				return fmt.Sprint(o, e, fb.Name, fb.URI, fb.Tag)
			}),
	}
	return out
}

type e3Report struct {
	MutableAfterInit map[string][]any `json:"mutable_after_init"`
	Points           int              `json:"scheduling_points"`
	PackageVars      []string         `json:"package_vars"`
}

func c04E3(r *Run) {
	st := newStats()
	defer r.St.merge(st)
	var rep e3Report
	b, err := os.ReadFile(filepath.Join(verifDir, ".overlay", "report.json"))
	if err != nil {
		st.Extra["e3_in_call_preemption"] = "package-state audit not available (use ./run.sh C04): only call-level interleavings explored"
		return
	}
	json.Unmarshal(b, &rep)
	var mut []string
	for v := range rep.MutableAfterInit {
		mut = append(mut, v)
	}
	sortStrings(mut)
	st.Extra["package_level_vars"] = fmt.Sprint(len(rep.PackageVars))
	if len(mut) == 0 {
		st.Extra["e3_in_call_preemption"] = fmt.Sprintf("audit of %d package-level variables: none is written after init(); calls on distinct objects share no mutable state, so call-level interleavings are complete (no in-call scheduling points needed)", len(rep.PackageVars))
		return
	}
	if e3SetHook == nil {
		st.Extra["e3_in_call_preemption"] = "package-level state written after init: " + strings.Join(mut, ",") + " but this binary was built without the scheduling-point overlay"
		st.Exhaustive = false
		st.CapsHit = append(st.CapsHit, "E3 in-call exploration unavailable in this build")
		return
	}
	sessAll := e3Sessions()
	bound := r.pick(2, 3)
	var execs, maxPoints int64
	for a := 0; a < len(sessAll); a++ {
		for bI := a + 1; bI < len(sessAll); bI++ {
			sess := []*e3Session{sessAll[a], sessAll[bI]}
			// solo transcripts
			solo := make([][]string, len(sess))
			for i := range sess {
				_, tr, _, _ := e3Run([]*e3Session{sess[i]}, nil)
				solo[i] = tr[0]
			}
			var explore func(prefix []int)
			explore = func(prefix []int) {
				if r.expired() {
					st.Exhaustive = false
					return
				}
				pts, tr, panics, err := e3Run(sess, prefix)
				execs++
				if os.Getenv("E3_DEBUG") != "" {
					var ch []int
					for _, p := range pts {
						ch = append(ch, p.chosen)
					}
					fmt.Fprintf(os.Stderr, "E3 %s+%s prefix=%v choices=%v tr=%q\n", sess[0].name, sess[1].name, prefix, ch, tr)
				}
				if err != nil {
					fmt.Fprintln(os.Stderr, "E3 harness error:", err)
					os.Exit(2)
				}
				if int64(len(pts)) > maxPoints {
					maxPoints = int64(len(pts))
				}
				st.Transitions += int64(len(pts))
				bad := ""
				for i := range sess {
					if strings.Join(tr[i], "\x00") != strings.Join(solo[i], "\x00") {
						bad = fmt.Sprintf("session %s differs from its solo run", sess[i].name)
					}
				}
				if len(panics) > 0 {
					bad = "panic: " + panics[0]
				}
				if bad != "" {
					var ch []int
					for _, p := range pts {
						ch = append(ch, p.chosen)
					}
					cs := &Case{Kind: "e3", Driver: "scheduler", Text: fmt.Sprintf("sessions %s+%s schedule %v", sess[0].name, sess[1].name, ch),
						Extra: map[string]any{"a": a, "b": bI, "choices": ch}}
					r.Col.add(&Violation{Property: "C04", Site: "isolation/in-call-preemption", Rule: "preempted-calls-on-distinct-objects-do-not-interfere",
						Class: strings.Join(mut, ","), Detail: bad, Case: cs})
				}
				// alternatives at every later point, within the preemption bound
				pre := 0
				for i := 0; i < len(pts); i++ {
					p := pts[i]
					if i >= len(prefix) {
						cost := pre
						stillEnabled := p.running >= 0 && len(p.enabled) > 0 && p.enabled[0] == p.running
						for alt := 1; alt < len(p.enabled); alt++ {
							c := cost
							if stillEnabled {
								c++
							}
							if c > bound {
								continue
							}
							np := make([]int, i+1)
							for k := 0; k < i; k++ {
								np[k] = pts[k].chosen
							}
							np[i] = alt
							explore(np)
						}
					}
					if p.running >= 0 && len(p.enabled) > 0 && p.enabled[0] == p.running && p.chosen != 0 {
						pre++
					}
				}
			}
			explore(nil)
		}
	}
	st.States += execs
	st.Evals += execs
	st.Extra["e3_in_call_preemption"] = fmt.Sprintf("package-level state written after init: %s; %d scheduling points instrumented; %d schedules of every session pair executed with <= %d preemptions (longest %d points)", strings.Join(mut, ","), rep.Points, execs, bound, maxPoints)
}

func init() {
	replayers["e3"] = func(prop string, c *Case) []*Violation {
		if e3SetHook == nil {
			return nil
		}
		all := e3Sessions()
		sess := []*e3Session{all[exInt(c.Extra, "a")], all[exInt(c.Extra, "b")]}
		solo := make([][]string, 2)
		for i := range sess {
			_, tr, _, _ := e3Run([]*e3Session{sess[i]}, nil)
			solo[i] = tr[0]
		}
		var ch []int
		switch x := c.Extra["choices"].(type) {
		case []int:
			ch = x
		case []any:
			for _, v := range x {
				ch = append(ch, int(anyUint(v)))
			}
		}
		_, tr, panics, err := e3Run(sess, ch)
		if err != nil {
			return nil
		}
		bad := len(panics) > 0
		for i := range sess {
			if strings.Join(tr[i], "\x00") != strings.Join(solo[i], "\x00") {
				bad = true
			}
		}
		if bad {
			b, _ := os.ReadFile(filepath.Join(verifDir, ".overlay", "report.json"))
			var rep e3Report
			json.Unmarshal(b, &rep)
			var mut []string
			for v := range rep.MutableAfterInit {
				mut = append(mut, v)
			}
			sortStrings(mut)
			return []*Violation{{Property: prop, Site: "isolation/in-call-preemption", Rule: "preempted-calls-on-distinct-objects-do-not-interfere", Class: strings.Join(mut, ","), Case: c}}
		}
		return nil
	}
}
