package main

// One adapter per exported incremental entry point (DESIGN §2.1).

import (
	"fmt"
	"strings"

	"github.com/intuitivelabs/sipsp"
)

func mkHdrs(c int) []sipsp.Hdr {
	if c < 0 {
		return nil
	}
	// a window over a larger array (callers often hand in pool[:k]): length c, spare capacity behind it
	return make([]sipsp.Hdr, c, c+3)
}

func mkVals(c int) []sipsp.PFromBody {
	if c < 0 {
		return nil
	}
	return make([]sipsp.PFromBody, c, c+3)
}

func min(a, b int) int {
	if a < b {
		return a
	}
	return b
}

func dumpHdr(sb *strings.Builder, name string, h *sipsp.Hdr) {
	if h == nil {
		fmt.Fprintf(sb, "%s=nil\n", name)
		return
	}
	fmt.Fprintf(sb, "%s=T%d N{%d,%d} V{%d,%d}\n", name, h.Type, h.Name.Offs, h.Name.Len, h.Val.Offs, h.Val.Len)
}

func dumpFrom(sb *strings.Builder, name string, f *sipsp.PFromBody) {
	if f == nil {
		fmt.Fprintf(sb, "%s=nil\n", name)
		return
	}
	fmt.Fprintf(sb, "%s=Name%v URI%v Tag%v Star=%v LR=%v HasExp=%v Type=%d Q=%d Exp=%d Params%v V%v PErr=%d EOffs=%d parsed=%v\n", name,
		f.Name, f.URI, f.Tag, f.Star, f.LR, f.HasExpires, f.Type, f.Q, f.Expires, f.Params, f.V, f.ParamErr, f.ErrOffs, f.Parsed())
}

func hvExtra(pv *sipsp.PHdrVals, sb *strings.Builder) {
	mx, ok := pv.MaxExpires()
	fmt.Fprintf(sb, "MaxExpires()=%d,%v\n", mx, ok)
	c := &pv.Contacts
	fmt.Fprintf(sb, "Contacts.VNo=%d More=%v\n", c.VNo(), c.More())
	fmt.Fprintf(sb, "Contacts.Parsed=%v Empty=%v\n", c.Parsed(), c.Empty())
	dumpFrom(sb, "GetContact(0)", c.GetContact(0))
	if c.N > 0 {
		dumpFrom(sb, "GetContact(N-1)", c.GetContact(c.N-1))
	}
	p := &pv.PAIs
	fmt.Fprintf(sb, "PAIs.VNo=%d More=%v Parsed=%v Empty=%v\n", p.VNo(), p.More(), p.Parsed(), p.Empty())
	dumpFrom(sb, "GetPAI(0)", p.GetPAI(0))
	if p.N > 0 && p.N <= p.VNo() {
		dumpFrom(sb, "GetPAI(N-1)", p.GetPAI(p.N-1))
	}
	fmt.Fprintf(sb, "From.Parsed=%v To.Parsed=%v Callid.Parsed=%v CSeq.Parsed=%v CLen.Parsed=%v Expires.Parsed=%v\n",
		pv.From.Parsed(), pv.To.Parsed(), pv.Callid.Parsed(), pv.CSeq.Parsed(), pv.CLen.Parsed(), pv.Expires.Parsed())
}

func hlExtra(hl *sipsp.HdrLst, sb *strings.Builder) {
	for t := sipsp.HdrNone; t <= sipsp.HdrOther; t++ {
		h := hl.GetHdr(t)
		if h != nil {
			dumpHdr(sb, fmt.Sprintf("GetHdr(%d)", t), h)
		}
	}
}

// ---- whole message ---------------------------------------------------------

var msgDrv = &Driver[sipsp.PSIPMsg]{
	Name: "ParseSIPMsg",
	New: func(cfg *Cfg) *sipsp.PSIPMsg {
		m := new(sipsp.PSIPMsg)
		m.Init(nil, mkHdrs(cfg.HdrCap), mkVals(cfg.ValCap))
		return m
	},
	Step: func(o *sipsp.PSIPMsg, buf []byte, offs int, cfg *Cfg) (int, sipsp.ErrorHdr) {
		return sipsp.ParseSIPMsg(buf, offs, o, uint8(cfg.Flags))
	},
	Lens: func(o *sipsp.PSIPMsg) map[string]int {
		return map[string]int{".HL.Hdrs": min(o.HL.N, len(o.HL.Hdrs)), ".PV.Contacts.Vals": o.PV.Contacts.VNo()}
	},
	Extra: func(o *sipsp.PSIPMsg, buf []byte, sb *strings.Builder) {
		fmt.Fprintf(sb, "Parsed=%v Err=%v Request=%v Method=%d\n", o.Parsed(), o.Err(), o.Request(), o.Method())
		hlExtra(&o.HL, sb)
		hvExtra(&o.PV, sb)
	},
}

// ---- first line ------------------------------------------------------------

var flineDrv = &Driver[sipsp.PFLine]{
	Name: "ParseFLine",
	New:  func(cfg *Cfg) *sipsp.PFLine { return new(sipsp.PFLine) },
	Step: func(o *sipsp.PFLine, buf []byte, offs int, cfg *Cfg) (int, sipsp.ErrorHdr) {
		return sipsp.ParseFLine(buf, offs, o)
	},
	Extra: func(o *sipsp.PFLine, buf []byte, sb *strings.Builder) {
		fmt.Fprintf(sb, "Request=%v Parsed=%v\n", o.Request(), o.Parsed())
	},
}

// ---- single header line ----------------------------------------------------

type HdrObj struct {
	H  sipsp.Hdr
	PV sipsp.PHdrVals
}

var hdrLineDrv = &Driver[HdrObj]{
	Name: "ParseHdrLine",
	New: func(cfg *Cfg) *HdrObj {
		o := new(HdrObj)
		o.PV.Init(mkVals(cfg.ValCap))
		return o
	},
	Step: func(o *HdrObj, buf []byte, offs int, cfg *Cfg) (int, sipsp.ErrorHdr) {
		if cfg.WithVals {
			return sipsp.ParseHdrLine(buf, offs, &o.H, &o.PV)
		}
		return sipsp.ParseHdrLine(buf, offs, &o.H, nil)
	},
	Lens: func(o *HdrObj) map[string]int {
		return map[string]int{".PV.Contacts.Vals": o.PV.Contacts.VNo()}
	},
	Extra: func(o *HdrObj, buf []byte, sb *strings.Builder) { hvExtra(&o.PV, sb) },
}

// ---- header block ----------------------------------------------------------

type HdrsObj struct {
	HL sipsp.HdrLst
	PV sipsp.PHdrVals
}

var hdrsDrv = &Driver[HdrsObj]{
	Name: "ParseHeaders",
	New: func(cfg *Cfg) *HdrsObj {
		o := new(HdrsObj)
		o.HL.Hdrs = mkHdrs(cfg.HdrCap)
		o.PV.Init(mkVals(cfg.ValCap))
		return o
	},
	Step: func(o *HdrsObj, buf []byte, offs int, cfg *Cfg) (int, sipsp.ErrorHdr) {
		if cfg.WithVals {
			return sipsp.ParseHeaders(buf, offs, &o.HL, &o.PV)
		}
		return sipsp.ParseHeaders(buf, offs, &o.HL, nil)
	},
	Lens: func(o *HdrsObj) map[string]int {
		return map[string]int{".HL.Hdrs": min(o.HL.N, len(o.HL.Hdrs)), ".PV.Contacts.Vals": o.PV.Contacts.VNo()}
	},
	Extra: func(o *HdrsObj, buf []byte, sb *strings.Builder) {
		hlExtra(&o.HL, sb)
		hvExtra(&o.PV, sb)
	},
}

// ---- name-addr -------------------------------------------------------------

var nameAddrDrv = &Driver[sipsp.PFromBody]{
	Name: "ParseNameAddrPVal",
	New:  func(cfg *Cfg) *sipsp.PFromBody { return new(sipsp.PFromBody) },
	Step: func(o *sipsp.PFromBody, buf []byte, offs int, cfg *Cfg) (int, sipsp.ErrorHdr) {
		switch sipsp.HdrT(cfg.HdrType) {
		case sipsp.HdrFrom:
			return sipsp.ParseFromVal(buf, offs, o)
		case sipsp.HdrContact:
			return sipsp.ParseOneContact(buf, offs, o)
		case sipsp.HdrPAI:
			return sipsp.ParseOnePAI(buf, offs, o)
		}
		return sipsp.ParseNameAddrPVal(sipsp.HdrT(cfg.HdrType), buf, offs, o)
	},
	Extra: func(o *sipsp.PFromBody, buf []byte, sb *strings.Builder) {
		fmt.Fprintf(sb, "Parsed=%v Empty=%v Pending=%v\n", o.Parsed(), o.Empty(), o.Pending())
	},
}

var contactsDrv = &Driver[sipsp.PContacts]{
	Name: "ParseAllContactValues",
	New: func(cfg *Cfg) *sipsp.PContacts {
		c := new(sipsp.PContacts)
		c.Init(mkVals(cfg.ValCap))
		return c
	},
	Step: func(o *sipsp.PContacts, buf []byte, offs int, cfg *Cfg) (int, sipsp.ErrorHdr) {
		return sipsp.ParseAllContactValues(buf, offs, o)
	},
	Lens: func(o *sipsp.PContacts) map[string]int { return map[string]int{".Vals": o.VNo()} },
	Extra: func(o *sipsp.PContacts, buf []byte, sb *strings.Builder) {
		fmt.Fprintf(sb, "VNo=%d More=%v Parsed=%v Empty=%v\n", o.VNo(), o.More(), o.Parsed(), o.Empty())
		dumpFrom(sb, "GetContact(0)", o.GetContact(0))
		if o.N > 0 {
			dumpFrom(sb, "GetContact(N-1)", o.GetContact(o.N-1))
		}
	},
}

var paisDrv = &Driver[sipsp.PPAIs]{
	Name: "ParseAllPAIValues",
	New:  func(cfg *Cfg) *sipsp.PPAIs { return new(sipsp.PPAIs) },
	Step: func(o *sipsp.PPAIs, buf []byte, offs int, cfg *Cfg) (int, sipsp.ErrorHdr) {
		return sipsp.ParseAllPAIValues(buf, offs, o)
	},
	Extra: func(o *sipsp.PPAIs, buf []byte, sb *strings.Builder) {
		fmt.Fprintf(sb, "VNo=%d More=%v Parsed=%v Empty=%v\n", o.VNo(), o.More(), o.Parsed(), o.Empty())
		dumpFrom(sb, "GetPAI(0)", o.GetPAI(0))
		dumpFrom(sb, "GetPAI(1)", o.GetPAI(1))
	},
}

// ---- CSeq / Call-ID / uint ---------------------------------------------------

var cseqDrv = &Driver[sipsp.PCSeqBody]{
	Name: "ParseCSeqVal",
	New:  func(cfg *Cfg) *sipsp.PCSeqBody { return new(sipsp.PCSeqBody) },
	Step: func(o *sipsp.PCSeqBody, buf []byte, offs int, cfg *Cfg) (int, sipsp.ErrorHdr) {
		return sipsp.ParseCSeqVal(buf, offs, o)
	},
	Extra: func(o *sipsp.PCSeqBody, buf []byte, sb *strings.Builder) {
		fmt.Fprintf(sb, "Parsed=%v\n", o.Parsed())
	},
}

var callidDrv = &Driver[sipsp.PCallIDBody]{
	Name: "ParseCallIDVal",
	New:  func(cfg *Cfg) *sipsp.PCallIDBody { return new(sipsp.PCallIDBody) },
	Step: func(o *sipsp.PCallIDBody, buf []byte, offs int, cfg *Cfg) (int, sipsp.ErrorHdr) {
		return sipsp.ParseCallIDVal(buf, offs, o)
	},
	Extra: func(o *sipsp.PCallIDBody, buf []byte, sb *strings.Builder) {
		fmt.Fprintf(sb, "Parsed=%v\n", o.Parsed())
	},
}

// uintDrv: cfg.Flags selects the entry point: 0 ParseUIntVal, 1 ParseCLenVal, 2 ParseExpiresVal.
var uintDrv = &Driver[sipsp.PUIntBody]{
	Name: "ParseUIntVal",
	New:  func(cfg *Cfg) *sipsp.PUIntBody { return new(sipsp.PUIntBody) },
	Step: func(o *sipsp.PUIntBody, buf []byte, offs int, cfg *Cfg) (int, sipsp.ErrorHdr) {
		switch cfg.Flags {
		case 1:
			return sipsp.ParseCLenVal(buf, offs, o)
		case 2:
			return sipsp.ParseExpiresVal(buf, offs, o)
		}
		return sipsp.ParseUIntVal(buf, offs, o)
	},
	Extra: func(o *sipsp.PUIntBody, buf []byte, sb *strings.Builder) {
		fmt.Fprintf(sb, "Parsed=%v\n", o.Parsed())
	},
}

// ---- parameters --------------------------------------------------------------

var tokParamDrv = &Driver[sipsp.PTokParam]{
	Name: "ParseTokenParam",
	New:  func(cfg *Cfg) *sipsp.PTokParam { return new(sipsp.PTokParam) },
	Step: func(o *sipsp.PTokParam, buf []byte, offs int, cfg *Cfg) (int, sipsp.ErrorHdr) {
		return sipsp.ParseTokenParam(buf, offs, o, sipsp.POptFlags(cfg.Flags))
	},
}

type URIParamsObj struct {
	L     sipsp.URIParamsLst
	Total int // sum of the per-call value counts
}

var uriParamsDrv = &Driver[URIParamsObj]{
	Name: "ParseAllURIParams",
	New: func(cfg *Cfg) *URIParamsObj {
		o := new(URIParamsObj)
		if cfg.ValCap >= 0 {
			o.L.Init(make([]sipsp.URIParam, cfg.ValCap, cfg.ValCap+3))
		}
		return o
	},
	Step: func(o *URIParamsObj, buf []byte, offs int, cfg *Cfg) (int, sipsp.ErrorHdr) {
		n, v, e := sipsp.ParseAllURIParams(buf, offs, &o.L, sipsp.POptFlags(cfg.Flags))
		o.Total += v
		return n, e
	},
	Lens: func(o *URIParamsObj) map[string]int { return map[string]int{".L.Params": o.L.PNo()} },
	Extra: func(o *URIParamsObj, buf []byte, sb *strings.Builder) {
		fmt.Fprintf(sb, "PNo=%d More=%v Empty=%v\n", o.L.PNo(), o.L.More(), o.L.Empty())
	},
}

type URIHdrsObj struct {
	L     sipsp.URIHdrsLst
	Total int
}

var uriHdrsDrv = &Driver[URIHdrsObj]{
	Name: "ParseAllURIHdrs",
	New: func(cfg *Cfg) *URIHdrsObj {
		o := new(URIHdrsObj)
		if cfg.ValCap >= 0 {
			o.L.Init(make([]sipsp.URIHdr, cfg.ValCap, cfg.ValCap+3))
		}
		return o
	},
	Step: func(o *URIHdrsObj, buf []byte, offs int, cfg *Cfg) (int, sipsp.ErrorHdr) {
		n, v, e := sipsp.ParseAllURIHdrs(buf, offs, &o.L, sipsp.POptFlags(cfg.Flags))
		o.Total += v
		return n, e
	},
	Lens: func(o *URIHdrsObj) map[string]int { return map[string]int{".L.Hdrs": o.L.HNo()} },
	Extra: func(o *URIHdrsObj, buf []byte, sb *strings.Builder) {
		fmt.Fprintf(sb, "HNo=%d More=%v Empty=%v\n", o.L.HNo(), o.L.More(), o.L.Empty())
	},
}

// SkipQuoted is stateless: the "object" is empty, the state is the continuation offset.
type NoState struct{ Dummy uint8 }

var skipQuotedDrv = &Driver[NoState]{
	Name: "SkipQuoted",
	New:  func(cfg *Cfg) *NoState { return new(NoState) },
	Step: func(o *NoState, buf []byte, offs int, cfg *Cfg) (int, sipsp.ErrorHdr) {
		return sipsp.SkipQuoted(buf, offs)
	},
}

// TokLoop iterates ParseTokenParam over a whole list the way GetViaBrSig does
// (Reset + call again at the returned offset after each more-values verdict),
// collecting the items; used to drive list-level resumption and C17.
type TokLoopObj struct {
	P     sipsp.PTokParam
	Items [8]sipsp.PTokParam
	N     int
}

var tokLoopDrv = &Driver[TokLoopObj]{
	Name: "ParseTokenParam-loop",
	New:  func(cfg *Cfg) *TokLoopObj { return new(TokLoopObj) },
	Step: func(o *TokLoopObj, buf []byte, offs int, cfg *Cfg) (int, sipsp.ErrorHdr) {
		for {
			n, e := sipsp.ParseTokenParam(buf, offs, &o.P, sipsp.POptFlags(cfg.Flags))
			switch e {
			case sipsp.ErrHdrMoreValues:
				if o.N < len(o.Items) {
					o.Items[o.N] = o.P
					o.Items[o.N] = sipsp.PTokParam{All: o.P.All, Name: o.P.Name, Val: o.P.Val}
				}
				o.N++
				o.P.Reset()
				offs = n
				if o.N > 64 {
					return n, sipsp.ErrHdrBug
				}
				continue
			case sipsp.ErrHdrOk, sipsp.ErrHdrEOH:
				if o.N < len(o.Items) {
					o.Items[o.N] = sipsp.PTokParam{All: o.P.All, Name: o.P.Name, Val: o.P.Val}
				}
				o.N++
			}
			return n, e
		}
	},
}
