package main

import (
	"fmt"
	"strings"
	"time"

	"github.com/intuitivelabs/sipsp"
)

type c05Case struct {
	Msg    string
	Flags  uint8
	HdrCap int
	ValCap int
	Offs   int
	Cut    int  // > 0: deliver the message in two chunks cut at this length (relative to the text start)
	WF     bool `json:",omitempty"` // every header value is well formed by construction (no leniently skipped text)
}

func within(f sipsp.PField, s, e int) bool {
	return f.Len == 0 || (int(f.Offs) >= s && int(f.Offs+f.Len) <= e)
}

func inside(in, out sipsp.PField) bool {
	return in.Len == 0 || within(in, int(out.Offs), int(out.Offs+out.Len))
}

func isLWSb(c byte) bool { return c == ' ' || c == '\t' || c == '\r' || c == '\n' }

// evalC05 parses one message one-shot and checks containment / nesting / order of everything reported.
func evalC05(cs *c05Case) (vs []*Violation, ok bool) {
	buf := append([]byte(strings.Repeat("#", cs.Offs)), cs.Msg...)
	add := func(rule, class, detail string) {
		c := mkCase("C05", "ParseSIPMsg", &Cfg{Flags: uint(cs.Flags), Offs: cs.Offs, HdrCap: cs.HdrCap, ValCap: cs.ValCap}, []byte(cs.Msg), nil)
		c.Extra = map[string]any{"case": *cs} // a copy: callers re-use their case variables
		vs = append(vs, &Violation{Property: "C05", Site: "ParseSIPMsg", Rule: rule, Class: class, Detail: detail, Case: c})
	}
	defer recoverTo3(add)
	m := new(sipsp.PSIPMsg)
	m.Init(nil, mkHdrs(cs.HdrCap), mkVals(cs.ValCap))
	po := cs.Offs
	if cs.Cut > 0 && cs.Cut < len(cs.Msg) {
		n1, e1 := sipsp.ParseSIPMsg(buf[:cs.Offs+cs.Cut], cs.Offs, m, cs.Flags)
		if e1 != sipsp.ErrHdrMoreBytes {
			return // the prefix already has a definitive verdict (a message of its own): not this case
		}
		po = n1
	}
	n, e := sipsp.ParseSIPMsg(buf, po, m, cs.Flags)
	if e != 0 {
		return
	}
	ok = true
	start := cs.Offs
	// --- first line
	fl := &m.FL
	flEnd := start
	for flEnd < n && buf[flEnd] != '\r' && buf[flEnd] != '\n' {
		flEnd++
	}
	var seq []sipsp.PField
	if fl.Request() && fl.StatusCode.Len == 0 {
		seq = []sipsp.PField{fl.Method, fl.URI, fl.Version}
	} else {
		seq = []sipsp.PField{fl.Version, fl.StatusCode, fl.Reason}
	}
	prev := start
	for i, f := range seq {
		if !within(f, start, flEnd) {
			add("first-line-fields-inside-first-line", fmt.Sprintf("field%d", i), fmt.Sprintf("%v outside [%d,%d)", f, start, flEnd))
		}
		if f.Len > 0 {
			if int(f.Offs) < prev {
				add("first-line-fields-in-order", fmt.Sprintf("field%d", i), fmt.Sprintf("%v starts before %d", f, prev))
			}
			prev = int(f.Offs + f.Len)
		}
	}
	// --- header lines by the reference tokenizer
	hs := flEnd
	if hs < n && buf[hs] == '\r' {
		hs++
		if hs < n && buf[hs] == '\n' {
			hs++
		}
	} else if hs < n {
		hs++
	}
	ref, rend := refTokenize(buf[hs:])
	if rend < 0 {
		return // the reference cannot split this block: nothing asserted about lines
	}
	bodyStart := hs + rend
	type ext struct{ s, e int }
	var lines []ext
	for i := range ref {
		s := hs + ref[i][0]
		e2 := bodyStart
		if i+1 < len(ref) {
			e2 = hs + ref[i+1][0]
		} else {
			// last line ends where the blank line starts
			e2 = bodyStart
		}
		lines = append(lines, ext{s, e2})
	}
	if m.HL.N != len(lines) {
		add("one-header-per-line", "count", fmt.Sprintf("N=%d reference lines %d", m.HL.N, len(lines)))
		return
	}
	stored := min(m.HL.N, len(m.HL.Hdrs))
	chkHdr := func(h *sipsp.Hdr, li int, what string) {
		l := lines[li]
		if !within(h.Name, l.s, l.e) || h.Name.Len == 0 {
			add("header-name-inside-its-line", what, fmt.Sprintf("line %d [%d,%d) name %v", li, l.s, l.e, h.Name))
		}
		if !within(h.Val, l.s, l.e) {
			cl := what
			if h.Type == sipsp.HdrContact || h.Type == sipsp.HdrPAI {
				cl = what + "/" + h.Type.String()
			}
			add("header-value-inside-its-line", cl, fmt.Sprintf("line %d [%d,%d) val %v type %v", li, l.s, l.e, h.Val, h.Type))
		}
		// "the value trimmed of surrounding whitespace": first to last non-blank byte after the colon, as split by the
		// reference tokenizer
		// (for headers with a value parser only where the value is well formed by construction: what the value parsers
		// skip leniently in malformed values, e.g. text after '>', is not the subject)
		if vs, ve := hs+ref[li][2], hs+ref[li][3]; (cs.WF || !isTableKind(h.Type)) && (ve > vs || h.Val.Len > 0) && (int(h.Val.Offs) != vs || int(h.Val.Offs+h.Val.Len) != ve) {
			add("value-is-the-trimmed-text-after-the-colon", what+"/"+h.Type.String(), fmt.Sprintf("line %d: val %v = %q, text after the colon trimmed [%d,%d) = %q", li, h.Val, h.Val.Get(buf), vs, ve, buf[vs:ve]))
		}
		if h.Val.Len > 0 {
			if int(h.Val.Offs) < int(h.Name.Offs+h.Name.Len) {
				add("name-before-value", what, fmt.Sprintf("name %v val %v", h.Name, h.Val))
			}
			v := h.Val.Get(buf)
			if isLWSb(v[0]) || isLWSb(v[len(v)-1]) {
				add("value-trimmed", what, fmt.Sprintf("val %q", v))
			}
		}
	}
	prevEnd := hs
	for i := 0; i < stored; i++ {
		h := &m.HL.Hdrs[i]
		chkHdr(h, i, "stored")
		if int(h.Name.Offs) < prevEnd {
			add("stored-headers-in-order-without-overlap", "stored", fmt.Sprintf("header %d name %v starts before %d", i, h.Name, prevEnd))
		}
		e2 := int(h.Name.Offs + h.Name.Len)
		if h.Val.Len > 0 && int(h.Val.Offs+h.Val.Len) > e2 {
			e2 = int(h.Val.Offs + h.Val.Len)
		}
		prevEnd = e2
	}
	// first-of-type shortcuts: which line? the first line whose reference name classifies to that type
	firstLine := map[sipsp.HdrT]int{}
	for i := range ref {
		t := refHdrType(buf[hs+ref[i][0] : hs+ref[i][1]])
		if _, ok := firstLine[t]; !ok {
			firstLine[t] = i
		}
	}
	for t := sipsp.HdrNone + 1; t < sipsp.HdrOther; t++ {
		if h := m.HL.GetHdr(t); h != nil && !h.Missing() {
			if li, ok := firstLine[t]; ok {
				chkHdr(h, li, "first-of-type")
				// the shortcut describes the same line as the stored header: same name and value extents
				if li < stored {
					if sh := &m.HL.Hdrs[li]; sh.Name != h.Name || sh.Val != h.Val || sh.Type != h.Type {
						add("first-of-type-describes-its-line", "differs-from-stored-header", fmt.Sprintf("type %v line %d: shortcut name %v val %v, stored name %v val %v", t, li, h.Name, h.Val, sh.Name, sh.Val))
					}
				}
			}
		}
	}
	// --- header-specific sub-fields nest
	nest := func(what string, f *sipsp.PFromBody, host sipsp.PField, hostWhat string) {
		for nm, x := range map[string]sipsp.PField{"Name": f.Name, "URI": f.URI, "Params": f.Params} {
			if !inside(x, f.V) {
				add("subfields-inside-value", what+"."+nm, fmt.Sprintf("%s %v outside V %v", nm, x, f.V))
			}
		}
		if !inside(f.Tag, f.Params) {
			add("tag-inside-parameters", what, fmt.Sprintf("Tag %v Params %v", f.Tag, f.Params))
		}
		if host.Len > 0 && !inside(f.V, host) {
			add("value-inside-its-header", what+"/"+hostWhat, fmt.Sprintf("V %v header value %v", f.V, host))
		}
	}
	hv := func(t sipsp.HdrT) sipsp.PField {
		if h := m.HL.GetHdr(t); h != nil && !h.Missing() {
			return h.Val
		}
		return sipsp.PField{}
	}
	pv := &m.PV
	if pv.From.Parsed() {
		nest("From", &pv.From, hv(sipsp.HdrFrom), "first-From")
	}
	if pv.To.Parsed() {
		nest("To", &pv.To, hv(sipsp.HdrTo), "first-To")
	}
	if pv.CSeq.Parsed() {
		if !inside(pv.CSeq.CSeq, pv.CSeq.V) || !inside(pv.CSeq.Method, pv.CSeq.V) {
			add("cseq-number-and-method-inside-value", "CSeq", fmt.Sprintf("CSeq %v Method %v V %v", pv.CSeq.CSeq, pv.CSeq.Method, pv.CSeq.V))
		}
		if n, m := pv.CSeq.CSeq, pv.CSeq.Method; n.Len > 0 && m.Len > 0 && int(n.Offs)+int(n.Len) > int(m.Offs) {
			add("cseq-number-and-method-inside-value", "CSeq/number-before-method", fmt.Sprintf("CSeq %v Method %v overlap or are out of order", n, m))
		}
		if h := hv(sipsp.HdrCSeq); h.Len > 0 && !inside(pv.CSeq.V, h) {
			add("value-inside-its-header", "CSeq", fmt.Sprintf("V %v header value %v", pv.CSeq.V, h))
		}
	}
	if pv.Callid.Parsed() {
		if h := hv(sipsp.HdrCallID); h.Len > 0 && !inside(pv.Callid.CallID, h) {
			add("value-inside-its-header", "Call-ID", fmt.Sprintf("CallID %v header value %v", pv.Callid.CallID, h))
		}
	}
	for nm, b := range map[string]*sipsp.PUIntBody{"Content-Length": &pv.CLen, "Expires": &pv.Expires} {
		t := sipsp.HdrCLen
		if nm == "Expires" {
			t = sipsp.HdrExpires
		}
		if b.Parsed() {
			if h := hv(t); h.Len > 0 && !inside(b.SVal, h) {
				add("value-inside-its-header", nm, fmt.Sprintf("SVal %v header value %v", b.SVal, h))
			}
		}
	}
	// multi-value headers: value i lies inside the line of a header of that type, in order
	multi := func(what string, t sipsp.HdrT, cnt int, get func(i int) *sipsp.PFromBody) {
		var tl []ext
		var tidx []int
		for i := range ref {
			if refHdrType(buf[hs+ref[i][0]:hs+ref[i][1]]) == t {
				tl = append(tl, lines[i])
				tidx = append(tidx, i)
			}
		}
		li := 0
		last := 0
		for i := 0; i < cnt; i++ {
			f := get(i)
			nest(what, f, sipsp.PField{}, "")
			for li < len(tl) && !within(f.V, tl[li].s, tl[li].e) {
				li++
			}
			if li >= len(tl) {
				add("value-inside-its-header", what+"-value-line", fmt.Sprintf("value %d V %v is in no %s header line (in order)", i, f.V, what))
				break
			}
			if hi := tidx[li]; hi < stored && !inside(f.V, m.HL.Hdrs[hi].Val) {
				add("value-inside-its-header", what+"-value-in-header-value", fmt.Sprintf("value %d V %v outside the value %v of its header (line %d)", i, f.V, m.HL.Hdrs[hi].Val, hi))
			}
			if int(f.V.Offs) < last {
				add("values-in-order", what, fmt.Sprintf("value %d V %v before %d", i, f.V, last))
			}
			last = int(f.V.Offs + f.V.Len)
		}
	}
	multi("Contact", sipsp.HdrContact, pv.Contacts.VNo(), func(i int) *sipsp.PFromBody { return &pv.Contacts.Vals[i] })
	multi("P-Asserted-Identity", sipsp.HdrPAI, pv.PAIs.VNo(), func(i int) *sipsp.PFromBody { return &pv.PAIs.Vals[i] })
	// --- everything inside the consumed region
	if bad := msgDrv.plan.pfieldsBad(unsafePtr(m), n, msgDrv.lens(m)); bad != "" {
		add("fields-inside-consumed-region", stripIdx(strings.SplitN(bad, "=", 2)[0]), bad)
	}
	// --- body and raw message
	if int(m.Body.Offs) != bodyStart {
		add("body-starts-where-headers-end", "body", fmt.Sprintf("Body %v headers end %d", m.Body, bodyStart))
	}
	if int(m.Body.Offs+m.Body.Len) != n {
		add("body-ends-at-returned-offset", "body", fmt.Sprintf("Body %v offset %d", m.Body, n))
	}
	if len(m.RawMsg) != n-start || (len(m.RawMsg) > 0 && &m.RawMsg[0] != &buf[start]) {
		add("raw-message-is-start-to-offset", "raw", fmt.Sprintf("len %d want %d", len(m.RawMsg), n-start))
	}
	return
}

func checkC05(r *Run) {
	r.Assume = []string{"line extents come from the independent reference tokenizer (mc/c07.go refTokenize); Name and Params are not required to be trimmed (documented)",
		"one-shot parses plus two-chunk deliveries (every cut for the repeated-header product and the long messages, every 9th cut for menu messages); all other schedules give the same values by C01"}
	msgDrv.init()
	fl, hm := flineMenu, hdrLineMenuFull
	K := 2
	var msgs []string
	var rec func(prefix string, k int)
	rec = func(prefix string, k int) {
		for _, b := range blankMenu {
			for _, body := range bodyMenu {
				if b == "\rX" && body != "" {
					continue
				}
				msgs = append(msgs, prefix+b+body)
			}
		}
		if k == K {
			return
		}
		for _, h := range hm {
			rec(prefix+h, k+1)
		}
	}
	for _, f := range fl {
		rec(f, 0)
	}
	// dedicated: repeated Contact / PAI / From headers with 1-3 values each
	cvals := []string{"<sip:a@b>", "sip:c@d;expires=5", "\"x,y\" <sip:e@f>;q=0.1", "Bob <sip:g@h>;tag=t", "Alice \"Al\" <sip:i@j>;tag=9", "\"A\" \"B, C\" <sip:k@l>", "*67 <sip:m@n>;tag=3", "*Bob* <tel:123>"}
	var lists []string
	for i := range cvals {
		lists = append(lists, cvals[i])
		for j := range cvals {
			lists = append(lists, cvals[i]+", "+cvals[j], cvals[i]+",\r\n "+cvals[j]+" , "+cvals[(i+j)%len(cvals)])
		}
	}
	wfMsg := map[int]bool{} // messages whose header values are all well formed by construction
	single := map[string]bool{}
	for _, v := range cvals {
		single[v] = true
	}
	for _, hn := range []string{"Contact", "m", "P-Asserted-Identity", "From"} {
		for i, l1 := range lists {
			for j, l2 := range lists {
				if (i+j)%r.pick(5, 1) != 0 && !(hn == "From" && single[l1] && single[l2]) {
					continue
				}
				mid := []string{"", "X-Mid: 1\r\n", "To: <sip:t@t>\r\n"}[(i+j)%3]
				// (From is single-valued: a list there is accepted leniently and is not "well formed")
				wfMsg[len(msgs)] = hn != "From" || (single[l1] && single[l2])
				msgs = append(msgs, "INVITE sip:a SIP/2.0\r\n"+hn+": "+l1+"\r\n"+mid+hn+": "+l2+"\r\nCSeq: 1 INVITE\r\nl: 0\r\n\r\n")
			}
		}
	}
	for _, m := range longMsgs {
		msgs = append(msgs, m)
	}
	// CR/LF bytes in front of the start line (keep-alives): rejected by the library as it is, but if they are ever
	// accepted the raw-message view still has to begin at the start offset, under every chunking
	for _, m := range longMsgs[:3] {
		msgs = append(msgs, "\r\n"+m, "\r\n\r\n"+m, "\n"+m)
	}
	// repeated headers of every kind with a value parser whose later occurrence has an empty value (blank, folded blanks):
	// whatever is accepted, each stored header's value lies on its own line
	for _, pair := range [][2]string{{"From", "<sip:a@b>;tag=1"}, {"f", "Bob <sip:a@b>"}, {"To", "<sip:c@d>"}, {"t", "sip:c@d;tag=2"}, {"Call-ID", "abc@h"}, {"CSeq", "1 INVITE"},
		{"Contact", "<sip:x@y>;expires=5"}, {"m", "<sip:x@y>, <sip:z@w>"}, {"Expires", "60"}, {"P-Asserted-Identity", "<sip:p@q>"}, {"l", "0"}, {"Via", "SIP/2.0/UDP h"}} {
		for _, empty := range []string{"", " ", "\t \t", "\r\n ", " \r\n\t "} {
			for _, mid := range []string{"", "X-Mid: 1\r\n"} {
				for _, nm := range []string{pair[0], strings.ToUpper(pair[0])} {
					msgs = append(msgs, "INVITE sip:a SIP/2.0\r\n"+pair[0]+": "+pair[1]+"\r\n"+mid+nm+":"+empty+"\r\nCSeq: 1 INVITE\r\nl: 0\r\n\r\n",
						"INVITE sip:a SIP/2.0\r\n"+pair[0]+": "+pair[1]+"\r\n"+mid+nm+":"+empty+"\r\n"+nm+": "+pair[1]+"\r\nl: 0\r\n\r\n")
				}
			}
		}
	}
	// generated first lines (also near misses: no reason phrase, no separator, odd separators) under every line
	// terminator, in front of a header block that uses the same terminator: whatever is accepted has its first-line
	// fields inside the first line and its headers on the header lines
	for _, t := range []string{"\r\n", "\n", "\r"} {
		tail := "From: <sip:a@example.org>;tag=1" + t + "To: <sip:b@example.org>" + t + "CSeq: 7 INVITE" + t + "Content-Length: 0" + t + t
		for _, s1 := range []string{" ", "  ", "\t"} {
			for _, code := range []string{"200", "000", "99", "1000", "2 0"} {
				for _, rest := range []string{"", " ", " OK", "  OK ", " O K", "\tOK", " OK\t", ":", " From: x"} {
					msgs = append(msgs, "SIP/2.0"+s1+code+rest+t+tail)
				}
			}
			for _, meth := range []string{"INVITE", "X", "SIP/2.0"} {
				for _, uri := range []string{"sip:a@b", "*", "sip:a", ""} {
					for _, ver := range []string{"SIP/2.0", "SIP/2.0 ", "SIP/3.0", "", "sip/2.0"} {
						msgs = append(msgs, meth+s1+uri+s1+ver+t+tail, meth+s1+uri+ver+t+tail)
					}
				}
			}
		}
	}
	nMenu := 0
	for i, m := range msgs {
		if strings.HasPrefix(m, "INVITE sip:a SIP/2.0\r\n") && strings.Contains(m, "CSeq: 1 INVITE\r\nl: 0") {
			nMenu = i
			break
		}
	}
	cfgs := []c05Case{{HdrCap: -1, ValCap: -1}, {Flags: 1, HdrCap: -1, ValCap: -1}, {HdrCap: 3, ValCap: 2, Offs: 3}, {Flags: 2, HdrCap: 1, ValCap: 0}, {HdrCap: 20, ValCap: 8}}
	parallelFor(r, len(msgs), func(c *enumCtx, i int) {
		for _, cf := range cfgs {
			cs := cf
			cs.Msg = msgs[i]
			cs.WF = wfMsg[i]
			vs, ok := evalC05(&cs)
			c.st.Evals++
			c.st.Transitions++
			c.st.Outcomes[fmt.Sprintf("parsed=%v", ok)]++
			if ok {
				c.st.States++
				c.st.Nontrivial++
			}
			for _, v := range vs {
				r.Col.add(v)
			}
		}
		// chunked delivery (values must be the same "one-shot or under any chunk schedule"): every single cut for the
		// repeated-header product and the long messages, a rotating selection of cuts for the menu messages
		step := 1
		if i < nMenu {
			step = 9
		}
		for cut := 1 + i%step; cut < len(msgs[i]); cut += step {
			cs := cfgs[(i+cut)%len(cfgs)]
			cs.Msg, cs.Cut = msgs[i], cut
			cs.WF = wfMsg[i]
			vs, ok := evalC05(&cs)
			c.st.Evals++
			c.st.Transitions += 2
			if ok {
				c.st.addExtra("chunked_successful_parses_checked", 1)
			}
			for _, v := range vs {
				r.Col.add(v)
			}
		}
	})
	r.St.sample(fmt.Sprintf("%q", msgs[len(msgs)/2]))
	r.St.sample(fmt.Sprintf("%q", msgs[len(msgs)-20]))
	r.Bounds["messages"] = len(msgs)
	r.Bounds["configs"] = len(cfgs)
}

func init() {
	replayers["C05"] = func(prop string, c *Case) []*Violation {
		var cs c05Case
		remarshal(c.Extra["case"], &cs)
		vs, _ := evalC05(&cs)
		return vs
	}
	register("C05", &checkDef{fn: checkC05,
		rule:        "E4: every message of the C01 fragment menus (<= 2 header lines, all first lines, blank forms, bodies), the long messages and a product of repeated Contact/PAI/From headers with 1-3 values, under 5 flag/capacity/offset configurations, parsed one-shot; oracle = containment, order, nesting of every reported field against line extents from an independent tokenizer; states/non-trivial = messages that parse successfully",
		quickBudget: 60 * time.Second, thorBudget: 10 * time.Minute})
}
