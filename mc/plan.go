package main

// Reflection "plans": precomputed memory layouts of the library's plain-data
// parser structures. They give, without any hook in /repo,
//   - a canonical key of the FULL state (exported and unexported leaf fields,
//     slices by content, []byte by position inside the parse buffer),
//   - a deep copy that re-points slices (built-in arrays inside the object are
//     rebased, caller arrays are duplicated),
//   - the list of exported PField positions (for the C04 dereference check),
//   - a textual dump of what a caller can read (exported fields only).

import (
	"fmt"
	"reflect"
	"strings"
	"unsafe"

	"github.com/intuitivelabs/sipsp"
)

type leafSeg struct{ off, size uintptr }

type sliceFld struct {
	off      uintptr
	elem     reflect.Type
	elemPlan *plan
	isBytes  bool
	exported bool
	name     string
}

type pfLoc struct {
	off  uintptr
	name string
}

type plan struct {
	t       reflect.Type
	size    uintptr
	segs    []leafSeg  // every leaf (non-slice) field, merged when contiguous
	expSegs []leafSeg  // exported-path leaf fields only
	slices  []sliceFld // slice fields at any depth (not inside slices)
	pfields []pfLoc    // exported-path PField locations (static part)
}

var pfieldType = reflect.TypeOf(sipsp.PField{})

var planCache = map[reflect.Type]*plan{}

func planOf(t reflect.Type) *plan {
	if p, ok := planCache[t]; ok {
		return p
	}
	p := &plan{t: t, size: t.Size()}
	planCache[t] = p
	p.walk(t, 0, true, "")
	// merge contiguous segments
	var m []leafSeg
	for _, s := range p.segs {
		if n := len(m); n > 0 && m[n-1].off+m[n-1].size == s.off {
			m[n-1].size += s.size
		} else {
			m = append(m, s)
		}
	}
	p.segs = m
	m = nil
	for _, s := range p.expSegs {
		if n := len(m); n > 0 && m[n-1].off+m[n-1].size == s.off {
			m[n-1].size += s.size
		} else {
			m = append(m, s)
		}
	}
	p.expSegs = m
	return p
}

// expKey appends a binary rendering of what dumpExported prints (exported leaf
// fields, exported slices cut to lens, []byte by position).
func (p *plan) expKey(base unsafe.Pointer, buf []byte, lens map[string]int, dst []byte) []byte {
	for _, s := range p.expSegs {
		dst = append(dst, memAt(base, s.off, s.size)...)
	}
	for i := range p.slices {
		sf := &p.slices[i]
		if !sf.exported {
			continue
		}
		sh := (*sliceHdr)(unsafe.Add(base, sf.off))
		if sf.isBytes {
			pos := -1
			if sh.data != nil && len(buf) > 0 {
				d := uintptr(sh.data) - uintptr(unsafe.Pointer(unsafe.SliceData(buf)))
				if d <= uintptr(cap(buf)) {
					pos = int(d)
				}
			}
			dst = putInt(dst, sh.len)
			dst = putInt(dst, pos)
			continue
		}
		cnt := sh.len
		if lens != nil {
			if c, ok := lens[sf.name]; ok && c < cnt {
				cnt = c
			}
		}
		dst = putInt(dst, cnt)
		es := sf.elem.Size()
		for j := 0; j < cnt; j++ {
			eb := unsafe.Add(sh.data, uintptr(j)*es)
			for _, s := range sf.elemPlan.expSegs {
				dst = append(dst, memAt(eb, s.off, s.size)...)
			}
		}
	}
	return dst
}

func (p *plan) walk(t reflect.Type, base uintptr, exported bool, path string) {
	switch t.Kind() {
	case reflect.Struct:
		if t == pfieldType && exported {
			p.pfields = append(p.pfields, pfLoc{base, path})
		}
		for i := 0; i < t.NumField(); i++ {
			f := t.Field(i)
			exp := exported && (f.PkgPath == "" || f.Anonymous)
			// embedded unexported-state structs (PFLineIState...) are
			// exported types with unexported fields: handled per field.
			p.walk(f.Type, base+f.Offset, exp, path+"."+f.Name)
		}
	case reflect.Array:
		es := t.Elem().Size()
		for i := 0; i < t.Len(); i++ {
			p.walk(t.Elem(), base+uintptr(i)*es, exported, fmt.Sprintf("%s[%d]", path, i))
		}
	case reflect.Slice:
		sf := sliceFld{off: base, elem: t.Elem(), exported: exported, name: path}
		if t.Elem().Kind() == reflect.Uint8 {
			sf.isBytes = true
		} else {
			sf.elemPlan = planOf(t.Elem())
			if len(sf.elemPlan.slices) != 0 {
				panic("nested slices not supported: " + t.String())
			}
		}
		p.slices = append(p.slices, sf)
	case reflect.Bool, reflect.Int, reflect.Int8, reflect.Int16, reflect.Int32, reflect.Int64,
		reflect.Uint, reflect.Uint8, reflect.Uint16, reflect.Uint32, reflect.Uint64, reflect.Uintptr:
		p.segs = append(p.segs, leafSeg{base, t.Size()})
		if exported {
			p.expSegs = append(p.expSegs, leafSeg{base, t.Size()})
		}
	default:
		panic("unsupported kind in parser struct: " + t.String())
	}
}

type sliceHdr struct {
	data unsafe.Pointer
	len  int
	cap  int
}

func memAt(base unsafe.Pointer, off, size uintptr) []byte {
	return unsafe.Slice((*byte)(unsafe.Add(base, off)), size)
}

func putInt(dst []byte, v int) []byte {
	u := uint32(int32(v))
	return append(dst, byte(u), byte(u>>8), byte(u>>16), byte(u>>24))
}

// key appends the canonical full-state key of the object at base.
// buf is the parse buffer: []byte fields are encoded as (len, position in buf).
func (p *plan) key(base unsafe.Pointer, buf []byte, dst []byte) []byte {
	for _, s := range p.segs {
		dst = append(dst, memAt(base, s.off, s.size)...)
	}
	for i := range p.slices {
		sf := &p.slices[i]
		sh := (*sliceHdr)(unsafe.Add(base, sf.off))
		dst = putInt(dst, sh.len)
		if sf.isBytes {
			pos := -1
			if sh.data != nil && len(buf) > 0 {
				d := uintptr(sh.data) - uintptr(unsafe.Pointer(unsafe.SliceData(buf)))
				if d <= uintptr(cap(buf)) {
					pos = int(d)
				} else {
					pos = -2
				}
			}
			dst = putInt(dst, pos)
			continue
		}
		es := sf.elem.Size()
		for j := 0; j < sh.len; j++ {
			eb := unsafe.Add(sh.data, uintptr(j)*es)
			for _, s := range sf.elemPlan.segs {
				dst = append(dst, memAt(eb, s.off, s.size)...)
			}
		}
	}
	return dst
}

// fixSlices completes a deep copy after the caller did the typed assignment
// *dst = *src. Slices whose storage lies inside the
// source object are rebased onto the destination object; []byte slices are
// shared (parse buffers are never written); other slices are duplicated into
// storage owned by dst (reused when large enough).
func (p *plan) fixSlices(dst, src unsafe.Pointer, store *[][]byte) {
	for i := range p.slices {
		sf := &p.slices[i]
		if sf.isBytes {
			continue
		}
		sh := (*sliceHdr)(unsafe.Add(dst, sf.off))
		if sh.data == nil {
			continue
		}
		d := uintptr(sh.data) - uintptr(src)
		if d < p.size {
			sh.data = unsafe.Add(dst, d)
			continue
		}
		es := sf.elem.Size()
		need := uintptr(sh.cap) * es
		for len(*store) <= i {
			*store = append(*store, nil)
		}
		st := (*store)[i]
		if uintptr(len(st)) < need+8 {
			// allocate pointer-free, 8-aligned storage
			w := make([]uint64, need/8+2)
			st = unsafe.Slice((*byte)(unsafe.Pointer(&w[0])), len(w)*8)
			(*store)[i] = st
		}
		if need > 0 {
			copy(st[:need], unsafe.Slice((*byte)(sh.data), need))
		}
		sh.data = unsafe.Pointer(&st[0])
	}
}

// pfieldsBad returns a description of the first exported PField that cannot be
// dereferenced against a buffer of length n ("" if all are fine).
func (p *plan) pfieldsBad(base unsafe.Pointer, n int, lens map[string]int) string {
	for _, l := range p.pfields {
		f := (*sipsp.PField)(unsafe.Add(base, l.off))
		if int(f.Offs)+int(f.Len) > n {
			return fmt.Sprintf("%s={%d,%d} > len %d", l.name, f.Offs, f.Len, n)
		}
	}
	for i := range p.slices {
		sf := &p.slices[i]
		if sf.isBytes || !sf.exported {
			continue
		}
		sh := (*sliceHdr)(unsafe.Add(base, sf.off))
		cnt := sh.len
		if lens != nil {
			if c, ok := lens[sf.name]; ok && c < cnt {
				cnt = c
			}
		}
		es := sf.elem.Size()
		for j := 0; j < cnt; j++ {
			eb := unsafe.Add(sh.data, uintptr(j)*es)
			for _, l := range sf.elemPlan.pfields {
				f := (*sipsp.PField)(unsafe.Add(eb, l.off))
				if int(f.Offs)+int(f.Len) > n {
					return fmt.Sprintf("%s[%d]%s={%d,%d} > len %d", sf.name, j, l.name, f.Offs, f.Len, n)
				}
			}
		}
	}
	return ""
}

// dump writes every exported field reachable from v (a caller's view).
// Slice fields listed in lens are cut to that many elements (the "stored"
// prefix); []byte fields are printed as position+length+content.
func dumpExported(sb *strings.Builder, v reflect.Value, path string, buf []byte, lens map[string]int) {
	t := v.Type()
	switch t.Kind() {
	case reflect.Struct:
		if t == pfieldType {
			fmt.Fprintf(sb, "%s={%d,%d}\n", path, v.Field(0).Uint(), v.Field(1).Uint())
			return
		}
		for i := 0; i < t.NumField(); i++ {
			f := t.Field(i)
			if f.PkgPath != "" && !f.Anonymous {
				continue
			}
			dumpExported(sb, v.Field(i), path+"."+f.Name, buf, lens)
		}
	case reflect.Array:
		for i := 0; i < t.Len(); i++ {
			dumpExported(sb, v.Index(i), fmt.Sprintf("%s[%d]", path, i), buf, lens)
		}
	case reflect.Slice:
		if t.Elem().Kind() == reflect.Uint8 {
			n := v.Len()
			pos := -1
			if n > 0 || !v.IsNil() {
				if v.Pointer() != 0 && len(buf) > 0 {
					d := v.Pointer() - uintptr(unsafe.Pointer(unsafe.SliceData(buf)))
					if d <= uintptr(cap(buf)) {
						pos = int(d)
					}
				}
			}
			fmt.Fprintf(sb, "%s=bytes(pos=%d,len=%d)\n", path, pos, n)
			return
		}
		n := v.Len()
		if lens != nil {
			if c, ok := lens[path]; ok && c < n {
				n = c
			}
		}
		fmt.Fprintf(sb, "%s.len=%d\n", path, n)
		for i := 0; i < n; i++ {
			dumpExported(sb, v.Index(i), fmt.Sprintf("%s[%d]", path, i), buf, lens)
		}
	case reflect.Bool:
		fmt.Fprintf(sb, "%s=%v\n", path, v.Bool())
	case reflect.Int, reflect.Int8, reflect.Int16, reflect.Int32, reflect.Int64:
		fmt.Fprintf(sb, "%s=%d\n", path, v.Int())
	case reflect.Uint, reflect.Uint8, reflect.Uint16, reflect.Uint32, reflect.Uint64, reflect.Uintptr:
		fmt.Fprintf(sb, "%s=%d\n", path, v.Uint())
	default:
		panic("dump: unsupported kind " + t.String())
	}
}

func unsafePtr[T any](p *T) unsafe.Pointer { return unsafe.Pointer(p) }
