#!/bin/bash
# MANIFEST.setup_cmd: warm the build cache (offline).
set -e
cd "$(dirname "$0")"
export GOFLAGS=-mod=mod GOPROXY=off GOSUMDB=off GOTOOLCHAIN=local GOCACHE=/verif/.gocache
mkdir -p /verif/bin /verif/evidence /verif/replays
( cd /verif/mc && cp -f /repo/go.sum go.sum && go build -o /verif/bin/mc . )
( cd /verif/instr && go build -o /verif/bin/instr . )
( cd /verif/race && cp -f /repo/go.sum go.sum && go build -race -o /verif/bin/race . )
echo setup ok
