#!/bin/bash
# usage: mcbuild.sh <repo-dir> <out-binary> : builds the checker against another copy of the repository
# (scratch worktree with a deliberate change, or an older commit). /repo and mc/go.mod are untouched.
set -e
R="$1"; OUT="$2"
export GOFLAGS=-mod=mod GOPROXY=off GOSUMDB=off GOTOOLCHAIN=local GOCACHE=/verif/.gocache
cd /verif/mc
TMPD=$(mktemp -d /verif/.tmpmod.XXXX)
sed "s|=> /repo|=> $R|" go.mod > $TMPD/go.mod; cp go.sum $TMPD/go.sum
go build -modfile=$TMPD/go.mod -o "$OUT" . ; rc=$?
rm -rf $TMPD
exit $rc
