module verif/instr

go 1.21
