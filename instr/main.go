// instr: static audit of package-level state of /repo + generation of a build overlay with scheduling points.
//
//	instr <repo-dir> <out-dir>
//
//  1. lists every package-level variable of the non-test files selected by the default build tags;
//  2. classifies a variable as *mutable after init* if, outside func init(), it is assigned (also through an index
//     or field), inc/dec-ed, range-assigned, has its address taken, is the destination of copy/append, or is the
//     receiver of a method call (conservative: misclassification only adds scheduling points);
//  3. writes <out>/report.json (all variables, the mutable ones with the sites) and, if there are mutable ones,
//     rewritten copies of the files that access them with `verifPoint("<file>:<func>:<var>")` inserted before each
//     statement that touches one, plus <out>/verif_hook_gen.go and <out>/overlay.json for `go build -overlay`.
//     Without mutable variables no overlay is written (overlay.json is `{"Replace":{}}`).
package main

import (
	"bytes"
	"encoding/json"
	"fmt"
	"go/ast"
	"go/build"
	"go/parser"
	"go/printer"
	"go/token"
	"os"
	"os/exec"
	"path/filepath"
	"sort"
	"strings"
)

type site struct {
	File string `json:"file"`
	Func string `json:"func"`
	Line int    `json:"line"`
	How  string `json:"how"`
}

type report struct {
	PackageVars      []string          `json:"package_vars"`
	MutableAfterInit map[string][]site `json:"mutable_after_init"`
	Instrumented     []string          `json:"instrumented_files"`
	Points           int               `json:"scheduling_points"`
}

func rootIdent(e ast.Expr) *ast.Ident {
	for {
		switch x := e.(type) {
		case *ast.Ident:
			return x
		case *ast.SelectorExpr:
			e = x.X
		case *ast.IndexExpr:
			e = x.X
		case *ast.SliceExpr:
			e = x.X
		case *ast.StarExpr:
			e = x.X
		case *ast.ParenExpr:
			e = x.X
		default:
			return nil
		}
	}
}

func main() {
	if len(os.Args) < 3 {
		fmt.Fprintln(os.Stderr, "usage: instr <repo-dir> <out-dir>")
		os.Exit(2)
	}
	repo, out := os.Args[1], os.Args[2]
	os.RemoveAll(out)
	os.MkdirAll(out, 0o755)
	fset := token.NewFileSet()
	ents, _ := os.ReadDir(repo)
	type pf struct {
		name string
		f    *ast.File
	}
	var files []pf
	pkgName := ""
	for _, e := range ents {
		n := e.Name()
		if e.IsDir() || !strings.HasSuffix(n, ".go") || strings.HasSuffix(n, "_test.go") {
			continue
		}
		if ok, _ := build.Default.MatchFile(repo, n); !ok {
			continue
		}
		f, err := parser.ParseFile(fset, filepath.Join(repo, n), nil, parser.ParseComments)
		if err != nil {
			fmt.Fprintln(os.Stderr, err)
			os.Exit(2)
		}
		files = append(files, pf{n, f})
		pkgName = f.Name.Name
	}
	vars := map[string]bool{}
	varType := map[string]ast.Expr{}
	imports := map[string]string{}
	var localFiles []*ast.File
	for _, p := range files {
		localFiles = append(localFiles, p.f)
		for _, im := range p.f.Imports {
			path := strings.Trim(im.Path.Value, "\"")
			nm := path[strings.LastIndex(path, "/")+1:]
			if im.Name != nil {
				nm = im.Name.Name
			}
			imports[nm] = path
		}
	}
	for _, p := range files {
		for _, d := range p.f.Decls {
			if g, ok := d.(*ast.GenDecl); ok && g.Tok == token.VAR {
				for _, s := range g.Specs {
					pkgSpecs[s.(*ast.ValueSpec)] = true
					for _, n := range s.(*ast.ValueSpec).Names {
						if n.Name != "_" {
							vars[n.Name] = true
							varType[n.Name] = s.(*ast.ValueSpec).Type
						}
					}
				}
			}
		}
	}
	rep := report{MutableAfterInit: map[string][]site{}}
	for v := range vars {
		rep.PackageVars = append(rep.PackageVars, v)
	}
	sort.Strings(rep.PackageVars)
	// pass 1: writes outside init()
	for _, p := range files {
		for _, d := range p.f.Decls {
			fd, ok := d.(*ast.FuncDecl)
			if !ok || fd.Body == nil || (fd.Name.Name == "init" && fd.Recv == nil) {
				continue
			}
			fn := fd.Name.Name
			mark := func(e ast.Expr, how string) {
				if id := rootIdent(e); id != nil && vars[id.Name] && (id.Obj == nil || isPkgLevel(id.Obj)) {
					rep.MutableAfterInit[id.Name] = append(rep.MutableAfterInit[id.Name], site{p.name, fn, fset.Position(e.Pos()).Line, how})
				}
			}
			ast.Inspect(fd.Body, func(n ast.Node) bool {
				switch x := n.(type) {
				case *ast.AssignStmt:
					if x.Tok != token.DEFINE {
						for _, l := range x.Lhs {
							mark(l, "assign")
						}
					}
				case *ast.IncDecStmt:
					mark(x.X, "incdec")
				case *ast.RangeStmt:
					if x.Tok == token.ASSIGN {
						if x.Key != nil {
							mark(x.Key, "range")
						}
						if x.Value != nil {
							mark(x.Value, "range")
						}
					}
				case *ast.UnaryExpr:
					if x.Op == token.AND {
						mark(x.X, "address-taken")
					}
				case *ast.CallExpr:
					if id, ok := x.Fun.(*ast.Ident); ok && (id.Name == "copy" || id.Name == "append") && len(x.Args) > 0 {
						mark(x.Args[0], id.Name)
					}
					if se, ok := x.Fun.(*ast.SelectorExpr); ok {
						if id, ok := se.X.(*ast.Ident); ok && vars[id.Name] && (id.Obj == nil || isPkgLevel(id.Obj)) {
							// a method call can only write the variable through a pointer receiver
							pm, known := ptrMethodsCached(repo, id.Name, varType[id.Name], imports, localFiles)
							if !known || pm[se.Sel.Name] {
								mark(se.X, "method-call")
							}
						} else if id := rootIdent(se.X); id != nil && id != se.X && vars[id.Name] && (id.Obj == nil || isPkgLevel(id.Obj)) {
							mark(se.X, "method-call-on-element")
						}
					}
				}
				return true
			})
		}
	}
	overlay := map[string]string{}
	if len(rep.MutableAfterInit) > 0 {
		mut := map[string]bool{}
		for v := range rep.MutableAfterInit {
			mut[v] = true
		}
		touches := func(n ast.Node) string {
			found := ""
			ast.Inspect(n, func(m ast.Node) bool {
				if id, ok := m.(*ast.Ident); ok && mut[id.Name] && (id.Obj == nil || isPkgLevel(id.Obj)) {
					found = id.Name
					return false
				}
				return found == ""
			})
			return found
		}
		for _, p := range files {
			changed := false
			for _, d := range p.f.Decls {
				fd, ok := d.(*ast.FuncDecl)
				if !ok || fd.Body == nil || (fd.Name.Name == "init" && fd.Recv == nil) {
					continue
				}
				var rewrite func(list []ast.Stmt) []ast.Stmt
				rewrite = func(list []ast.Stmt) []ast.Stmt {
					var outl []ast.Stmt
					for _, s := range list {
						if v := touches(s); v != "" {
							lbl := fmt.Sprintf("%s:%s:%s", p.name, fd.Name.Name, v)
							outl = append(outl, &ast.ExprStmt{X: &ast.CallExpr{Fun: ast.NewIdent("verifPoint"), Args: []ast.Expr{&ast.BasicLit{Kind: token.STRING, Value: fmt.Sprintf("%q", lbl)}}}})
							rep.Points++
							changed = true
						}
						// recurse into nested statement lists
						ast.Inspect(s, func(m ast.Node) bool {
							switch b := m.(type) {
							case *ast.SwitchStmt:
								for _, cl := range b.Body.List {
									cc := cl.(*ast.CaseClause)
									cc.Body = rewrite(cc.Body)
								}
								return false
							case *ast.TypeSwitchStmt:
								for _, cl := range b.Body.List {
									cc := cl.(*ast.CaseClause)
									cc.Body = rewrite(cc.Body)
								}
								return false
							case *ast.SelectStmt:
								for _, cl := range b.Body.List {
									cc := cl.(*ast.CommClause)
									cc.Body = rewrite(cc.Body)
								}
								return false
							case *ast.BlockStmt:
								b.List = rewrite(b.List)
								return false
							case *ast.CaseClause:
								b.Body = rewrite(b.Body)
								return false
							case *ast.CommClause:
								b.Body = rewrite(b.Body)
								return false
							case *ast.FuncLit:
								return false
							}
							return true
						})
						outl = append(outl, s)
					}
					return outl
				}
				fd.Body.List = rewrite(fd.Body.List)
			}
			if changed {
				var buf bytes.Buffer
				printer.Fprint(&buf, fset, p.f)
				o := filepath.Join(out, p.name)
				os.WriteFile(o, buf.Bytes(), 0o644)
				overlay[filepath.Join(repo, p.name)] = o
				rep.Instrumented = append(rep.Instrumented, p.name)
			}
		}
		hook := fmt.Sprintf("package %s\n\n// generated by /verif/instr: scheduling points before accesses to package-level state that is written after init\n\n// VerifPointHook is called (if set) before every such access.\nvar VerifPointHook func(string)\n\nfunc verifPoint(s string) {\n\tif h := VerifPointHook; h != nil {\n\t\th(s)\n\t}\n}\n", pkgName)
		hp := filepath.Join(out, "verif_hook_gen.go")
		os.WriteFile(hp, []byte(hook), 0o644)
		overlay[filepath.Join(repo, "verif_hook_gen.go")] = hp
	}
	b, _ := json.MarshalIndent(map[string]any{"Replace": overlay}, "", " ")
	os.WriteFile(filepath.Join(out, "overlay.json"), b, 0o644)
	rb, _ := json.MarshalIndent(rep, "", " ")
	os.WriteFile(filepath.Join(out, "report.json"), rb, 0o644)
	fmt.Printf("instr: %d package-level vars, %d mutable after init, %d scheduling points in %d files\n", len(rep.PackageVars), len(rep.MutableAfterInit), rep.Points, len(rep.Instrumented))
}

// ptrMethods returns the set of pointer-receiver methods of the named type, or nil if unknown.
// typ is the declared type expression of the variable (Ident for a local type, SelectorExpr for an imported one).
func ptrMethods(repo string, typ ast.Expr, imports map[string]string, local []*ast.File) (map[string]bool, bool) {
	var dir, name string
	var filesToScan []*ast.File
	switch t := typ.(type) {
	case *ast.Ident:
		name = t.Name
		filesToScan = local
	case *ast.SelectorExpr:
		pk, ok := t.X.(*ast.Ident)
		if !ok {
			return nil, false
		}
		ip, ok := imports[pk.Name]
		if !ok {
			return nil, false
		}
		cmd := exec.Command("go", "list", "-f", "{{.Dir}}", ip)
		cmd.Dir = repo
		b, err := cmd.Output()
		if err != nil {
			return nil, false
		}
		dir = strings.TrimSpace(string(b))
		name = t.Sel.Name
		fs := token.NewFileSet()
		pkgs, err := parser.ParseDir(fs, dir, func(fi os.FileInfo) bool { return !strings.HasSuffix(fi.Name(), "_test.go") }, 0)
		if err != nil {
			return nil, false
		}
		for _, p := range pkgs {
			for _, f := range p.Files {
				filesToScan = append(filesToScan, f)
			}
		}
	default:
		return nil, false
	}
	res := map[string]bool{}
	found := false
	for _, f := range filesToScan {
		for _, d := range f.Decls {
			switch x := d.(type) {
			case *ast.GenDecl:
				for _, s := range x.Specs {
					if ts, ok := s.(*ast.TypeSpec); ok && ts.Name.Name == name {
						found = true
					}
				}
			case *ast.FuncDecl:
				if x.Recv != nil && len(x.Recv.List) == 1 {
					if st, ok := x.Recv.List[0].Type.(*ast.StarExpr); ok {
						if id, ok := st.X.(*ast.Ident); ok && id.Name == name {
							res[x.Name.Name] = true
						}
					}
				}
			}
		}
	}
	return res, found
}

// isPkgLevel: the parser resolves identifiers declared in the same file; a package-level var has a ValueSpec
// declaration whose position is outside any function (Obj.Decl is *ast.ValueSpec and Obj.Data == iota index...).
// File-scope objects are the only ones the parser records with Kind Var and a ValueSpec at top level; locals are
// resolved to their own objects, which are not in the package var set by position.
func isPkgLevel(o *ast.Object) bool {
	vs, ok := o.Decl.(*ast.ValueSpec)
	if !ok {
		return false
	}
	return pkgSpecs[vs]
}

var pkgSpecs = map[*ast.ValueSpec]bool{}

var pmCache = map[string]map[string]bool{}
var pmKnown = map[string]bool{}

func ptrMethodsCached(repo, v string, typ ast.Expr, imports map[string]string, local []*ast.File) (map[string]bool, bool) {
	if _, ok := pmKnown[v]; !ok {
		if typ == nil {
			pmKnown[v] = false
		} else {
			pmCache[v], pmKnown[v] = ptrMethods(repo, typ, imports, local)
		}
	}
	return pmCache[v], pmKnown[v]
}
