// Free-running concurrency pass for C04 (isolation): the session bodies of the interleaving
// exploration run in parallel goroutines under the race detector (GORACE=halt_on_error=1) and every
// result is compared with the sequential one. Supplementary to the exhaustive interleaving search:
// a cooperative scheduler's hand-offs would hide data races from the detector, a free run does not.
package main

import (
	"fmt"
	"os"
	"strconv"
	"sync"
	"time"

	"github.com/intuitivelabs/sipsp"
)

type body func() string

func bodies() []body {
	m1 := []byte("INVITE sip:a@b SIP/2.0\r\nFrom: <sip:a@b>;tag=1\r\nTo: <sip:c@d>\r\nCall-ID: abc@1.2.3.4\r\nCSeq: 1 INVITE\r\nContact: <sip:x@y>;expires=5, <sip:z@w>\r\nVia: SIP/2.0/UDP h;branch=z9hG4bKabc\r\nl: 2\r\n\r\nab")
	m2 := []byte("SIP/2.0 200 OK\r\nf: \"Q\" <sip:q@r>;tag=zz\r\nt: <sip:q@r>\r\ni: 99-ff\r\nCSeq: 7 REGISTER\r\nm: *\r\nExpires: 0\r\nP-Asserted-Identity: <sip:p@q>,<tel:1>\r\n\r\n")
	parse := func(msg []byte, cuts []int) body {
		return func() string {
			var m sipsp.PSIPMsg
			m.Init(nil, nil, nil)
			offs := 0
			var e sipsp.ErrorHdr
			for _, c := range append(cuts, len(msg)) {
				offs, e = sipsp.ParseSIPMsg(msg[:c], offs, &m, 0)
				if e != sipsp.ErrHdrMoreBytes {
					break
				}
			}
			sig, se := sipsp.GetMsgSig(&m)
			return fmt.Sprint(offs, e, m.HL.N, m.HL.PFlags, m.PV.From.Tag, m.PV.Contacts.N, m.PV.PAIs.N, m.FL.Status, m.Body, sig.String(), se)
		}
	}
	u1, u2 := []byte("sip:u@H.com:5060;transport=udp;x=1?a=1&b=2"), []byte("SIP:u@h.COM:5060;X=1;transport=UDP?b=2&a=1")
	u3 := []byte("sips:v:p@[::1];ttl=1;maddr=m")
	return []body{
		parse(m1, []int{40, 120}), parse(m2, []int{25, 90}), parse(m1, nil), parse(m2, []int{1, 2, 3, 50}),
		func() string {
			var r1, r2 sipsp.PsipURI
			ok, e, w := sipsp.URIParseCmp(u1, u2, 0, &r1, &r2)
			ok2, e2, w2 := sipsp.URIParseCmp(u1, u3, sipsp.URICmpSkipParams, &r1, &r2)
			return fmt.Sprint(ok, e, w, ok2, e2, w2, r1, r2)
		},
		func() string {
			a, e1 := sipsp.URIParamsEq([]byte("transport=udp;x=1"), 0, []byte("X=1;transport=UDP"), 0)
			b, e2 := sipsp.URIParamsEq([]byte("ttl=1;y"), 0, []byte("y;ttl=2"), 0)
			c, e3 := sipsp.URIHdrsEq([]byte("a=1&b=2"), 0, []byte("b=2&a=1"), 0)
			d, e4 := sipsp.URIHdrsEq([]byte("a=1"), 0, []byte("a=1&c=3"), 0)
			return fmt.Sprint(a, e1, b, e2, c, e3, d, e4)
		},
		func() string {
			s, l := sipsp.GetCallIDSig([]byte("abc-def@10.0.0.1"))
			v, vl := sipsp.GetViaBrSig([]byte("SIP/2.0/UDP h;branch=z9hG4bKdeadbeef;rport"))
			var d4 [4]byte
			ok, o, n := sipsp.ContainsIP4([]byte("x 192.168.1.20 y"), d4[:])
			var d16 [16]byte
			ok6, o6, n6 := sipsp.ContainsIP6([]byte("a [2001:db8::1] b"), d16[:])
			return fmt.Sprint(s, l, v, vl, ok, o, n, d4, ok6, o6, n6, d16, sipsp.GetHdrType([]byte("Contact")), sipsp.GetHdrType([]byte("x-y")), sipsp.GetMethodNo([]byte("INVITE")), sipsp.GetMethodNo([]byte("invite")))
		},
		func() string {
			var u sipsp.PsipURI
			e, n := sipsp.ParseURI(u1, &u)
			ok := u.AdjustOffs(sipsp.PField{Offs: 100, Len: sipsp.OffsT(len(u1))})
			var p sipsp.PTokParam
			o, pe := sipsp.ParseTokenParam([]byte("branch = \"q\\\"x\" ; lr,next"), 0, &p, sipsp.POptTokCommaTermF)
			var fb sipsp.PFromBody
			fo, fe := sipsp.ParseFromVal([]byte("\"A B\" <sip:a@b>;tag=x\r\nX"), 0, &fb)
			return fmt.Sprint(e, n, ok, u, o, pe, p, fo, fe, fb.Name, fb.URI, fb.Tag)
		},
	}
}

func main() {
	dur := 2 * time.Second
	if len(os.Args) > 1 {
		if s, err := strconv.ParseFloat(os.Args[1], 64); err == nil {
			dur = time.Duration(s * float64(time.Second))
		}
	}
	bs := bodies()
	want := make([]string, len(bs))
	for i, b := range bs {
		want[i] = b()
	}
	var wg sync.WaitGroup
	var mu sync.Mutex
	bad := ""
	var calls int64
	deadline := time.Now().Add(dur)
	for g := 0; g < 16; g++ {
		wg.Add(1)
		go func(g int) {
			defer wg.Done()
			n := int64(0)
			for it := 0; time.Now().Before(deadline); it++ {
				i := (g + it) % len(bs)
				got := bs[i]()
				n++
				if got != want[i] {
					mu.Lock()
					bad = fmt.Sprintf("body %d under concurrency: %q, sequential: %q", i, got, want[i])
					mu.Unlock()
					return
				}
			}
			mu.Lock()
			calls += n
			mu.Unlock()
		}(g)
	}
	wg.Wait()
	if bad != "" {
		fmt.Println("CONCURRENT-MISMATCH " + bad)
		os.Exit(1)
	}
	fmt.Printf("concurrent-ok bodies=%d goroutines=16 calls=%d\n", len(bs), calls)
}
