#!/usr/bin/env python3
"""Generates /verif/MANIFEST.json from the table below (kept in one place so it is always schema-valid)."""
import json, sys
CLAIMED = {
 "C02": dict(level="model_checking",
   text="Exhaustive: every chunk schedule of every input in byte tries (per-parser structural alphabets, depth 5-8 quick / 6-10 thorough) and fragment tries is executed on the real sub-parsers via schedule merging (all suspended states reachable at each prefix are resumed to every longer prefix) and compared with a fresh one-shot call on the same prefix; start offsets, flag sets and capacities enumerated.",
   note="Bounded input length/alphabet; the state key covers every (also unexported) leaf field so merged states have equal futures; buffers <= 65535 bytes.",
   technique="explicit-state prefix-trie exploration of the real parsers with schedule merging (all chunk schedules), one-shot differential oracle",
   ref="DESIGN.md §2.2, §3 C02"),
}
TODO = {}
props = [json.loads(l) for l in open('/verif/properties.jsonl')]
checks, na = [], []
for p in props:
    i = p['id']
    if i in CLAIMED:
        c = CLAIMED[i]
        checks.append({
          "property_id": i,
          "quick_cmd": f"./run.sh {i} quick",
          "thorough_cmd": f"./run.sh {i} thorough",
          "evidence_file": f"/verif/evidence/{i}.json",
          "replay_cmd_template": "./bin/mc replay {path}",
          "engine": "mc",
          "level_claimed": {"category": c["level"], "text": c["text"], "design_ref": c["ref"]},
          "level_note": c["note"],
          "technique": c["technique"],
        })
    else:
        na.append({"property_id": i, "reason": TODO.get(i, "check not built yet in this round (work in progress; model checking applies, see DESIGN.md §3)")})
m = {
 "version": 1,
 "setup_cmd": "./setup.sh",
 "hooks": {"guard": "verif", "enable": "no source hooks: the harness is an external Go module (replace => /repo) reading unexported state via reflect/unsafe; generated overlay files are added with go build -overlay", "baseline_off_cmd": "cd /repo && GOFLAGS=-mod=mod GOPROXY=off GOSUMDB=off GOTOOLCHAIN=local go test -vet=off -count=1 ./...", "source_commits": [], "add_only": True},
 "engines": [{"name": "mc", "path": "/verif/mc", "serves_properties": sorted(CLAIMED), "kind_free_text": "hand-written explicit-state explorers over the real Go functions: E1 prefix-trie explorer with schedule merging, E2 history BFS, E3 interleaving scheduler, E4 bounded product enumeration against reference models"}],
 "checks": checks,
 "not_applicable": na,
 "notes": "All checks rebuild the checker against /repo's working tree (run.sh). Known findings: /verif/known_findings.json.",
}
json.dump(m, open('/verif/MANIFEST.json','w'), indent=1)
print("claimed", len(checks), "not claimed", len(na))
