#!/usr/bin/env python3
"""Generates /verif/MANIFEST.json from the table below (kept in one place so it is always schema-valid)."""
import json, sys
T_E1 = "explicit-state prefix-trie exploration of the real parser with schedule merging (all chunk schedules), one-shot differential oracle"
T_E4 = "exhaustive bounded enumeration of inputs on the real functions against a reference model / by-construction oracle"
def C(level, text, note, technique, ref): return dict(level=level, text=text, note=note, technique=technique, ref=ref)
MC = "model_checking"
CLAIMED = {
 "C01": C(MC, "Every chunk schedule of every message in the fragment tries (first line x header lines x blank x body, a node at every byte; long fixed messages) is executed on the real ParseSIPMsg: each distinct suspended state reachable at a prefix is resumed to every longer prefix and compared (verdict, offset, all caller-visible values when definitive) with a fresh one-shot parse; flags, capacities, start offset and no-more-data-on-final-call enumerated.",
   "Inputs bounded by the menus; deeper tries use a reduced configuration set; full-state key (incl. unexported fields) justifies merging equal states.", T_E1, "DESIGN.md 2.2, 3/C01"),
 "C02": C(MC, "Same exploration for every exported incremental sub-parser (name-addr in 6 header kinds, contact/PAI lists, CSeq, Call-ID, uint/CLen/Expires, first line, header line, header block, token param incl. list loop, URI param/header lists, SkipQuoted) over byte tries on per-parser structural alphabets and fragment tries; flag sets, capacities, start offsets enumerated; input-end flag as final-call variant.",
   "Bounded trie depth/alphabet per space (listed in the evidence); buffers <= 65535 bytes.", T_E1, "DESIGN.md 2.2, 3/C02"),
 "C03": C(MC, "For every trie node of the C01/C02 spaces whose one-shot verdict is definitive, the one-shot result on every child prefix and on 17 adversarial continuations must be identical (verdict, offset, values); documented exemptions encoded (end-of-input flags not run; body extent of a message without Content-Length).",
   "Extensions beyond the trie bound are only the probe continuations; look-ahead of the parsers is <= 3 bytes (14 for the first line, covered by prefixed tries).", "explicit-state enumeration of (buffer, extension) pairs on the real parsers, stability oracle", "DESIGN.md 3/C03"),
 "C04": C(MC, "Sanity oracle (no panic, offset inside buffer and not before the passed offset unless error, every exported field dereferenceable, GetMsgSig/String on every reached message object) on every call of every schedule over hostile byte tries (structural bytes + NUL 0x7f 0x80 0xff), the full 256-value alphabet at depth 2-3, <=1 (x256) / <=2 (structural) byte substitutions into well-formed messages; exhaustive enumeration of the non-parsing entry points (lookups on all names of length 0..3, URI parse/compare/relocate, param/header list comparison, IP and signature helpers, String methods); all interleavings at API-call granularity of every pair/triple of independent sessions compared with solo transcripts.",
   "Isolation under true parallel execution is argued from the absence of package-level state written after init (checked by the interleaving exploration only at call granularity, see DESIGN.md 3/C04 and Limits).", "explicit-state exploration (E1 with sanity oracle) + exhaustive enumeration + interleaving enumeration", "DESIGN.md 3/C04"),
 "C05": C(MC, "Every successfully parsed message of the C01 menus (<= 2 header lines), the long messages and a product of repeated Contact/PAI/From headers with 1-3 values, under 5 configurations: containment, order, nesting of every reported field against line extents computed by an independent tokenizer; body and raw-message extents.",
   "One-shot parses (all schedules equal one-shot by C01); messages from the menus only.", T_E4, "DESIGN.md 3/C05"),
 "C06": C(MC, "Full product header-block shape x declared length x available bytes x 8 flags x blank form x offset against the framing table of the statement; every sequence of 1..3 (4 thorough) pipelined menu messages parsed back to back with Reset/Init/new object and compared with each message parsed alone at the same offset.",
   "Reference table transcribed from the property statement; menu of 6 pipeline messages.", T_E4+" + bounded operation sequences (pipelines)", "DESIGN.md 3/C06"),
 "C07": C(MC, "Generated well-formed header blocks (73 names x ws-before-colon x 13 value forms x 3 terminators; 1-2 lines from the full menu, 3-4 from reduced menus, 60-line blocks; capacities 0,1,N-1,N,N+1,nil) through ParseHeaders; N, flags, stored name/value/type, first-of-type by construction; generator cross-checked by an independent tokenizer on every block.",
   "Value sub-parsers are exercised only for generic header kinds here (their grammar is C09/C10).", T_E4, "DESIGN.md 3/C07"),
 "C08": C(MC, "Product method x URI x version x terminator request lines, all 1000 status codes x reasons x version casings x terminators, near-miss lines (never success), through ParseFLine and ParseSIPMsg; expectations by construction.", "Token menus listed in mc/c08.go.", T_E4, "DESIGN.md 3/C08"),
 "C09": C(MC, "Generated name-addr values (display x URI x bracket form x ordered parameter lists of 0-3 x LWS at every legal gap with <= 2 non-empty gaps) and lists of 1-3 values in 1-2 headers through ParseNameAddrPVal (6 header kinds) and ParseHeaders (From/To/Contact/PAI, capacities): every reported field, counts, expires summary, first/last contact by construction.",
   "Name/Params compared after trimming trailing LWS (documented leniency); MinExpires asserted only when all values carry expires.", T_E4, "DESIGN.md 3/C09"),
 "C10": C(MC, "Every digit string of the bounded families (all <= 5/7 digits, windows around 2^16..2^64 and multiples, leading zeros, lengths to 40; all q strings <= 6 over 0159.) in every numeric position (CSeq, Content-Length, Expires, contact expires/q, URI port in 4 shapes, status) compared with math/big; every chunk schedule of boundary values via the E1 explorer.",
   "Digit-string families as listed; positions as listed.", T_E4+" + E1 schedules for boundary values", "DESIGN.md 3/C10"),
 "C11": C(MC, "Every input (all prefixes) of the message menus and of each sub-parser's C02 space parsed at offset 0 and at k in {1,2,3,255,256,257,32767,32768,65535-len-1,65535-len} behind six kinds of junk (thorough: every k for every 40th input): verdict equal, offset and every non-empty field shifted by exactly k, other values equal.",
   "Input sets larger than the per-space cap are strided deterministically (reported, exhaustive=false); URI relocation is C18.", T_E4, "DESIGN.md 3/C11"),
 "C12": C(MC, "Explicit-state BFS over histories of one reused object per object type: transitions = one call on every prefix of every menu input followed by Reset/Init, from every distinct post-reset state (full-state key incl. caller arrays); a post-reset state equal to the pristine state closes the search (all history lengths covered); every other state is compared with a new object on every menu input one-shot and at every single cut.",
   "Menus of 4-9 inputs per object type; caps on states/depth reported when hit.", "explicit-state BFS with state hashing over operation histories of the real objects", "DESIGN.md 2.3, 3/C12"),
 "C13": C(MC, "Messages built from combinations of up to 4 (6 thorough) header lines incl. 3 Contact headers / 5 values, 2 PAI headers / 4 values, repeated From: header capacity -1..N+1 x contact capacity -1..6, one-shot plus single cuts, compared with the ample-capacity parse (verdict, offset, counts, flags, shortcuts, values, summaries, first/last contact, signature; stored = prefix; More iff dropped); URI param/header lists x capacity -1..P+1 x every cut.",
   "Quick tier takes every 5th message combination (stated in evidence).", T_E4, "DESIGN.md 3/C13"),
 "C14": C(MC, "Every string of length <= 8 (9 thorough) over a 1 : @ ; ? & = [ ] . after sip:/sips: (and shorter after tel: and case variants) through ParseURI against the decomposition oracle (ordered, disjoint, exact delimiters, concatenation reproduces input, ';' '?' before '@' inside user/pass, brackets kept, consumed = len, tel number in user; rejected: error offset inside input).",
   "Alphabet and length bound as stated.", T_E4, "DESIGN.md 3/C14"),
 "C15": C(MC, "All ordered pairs of a generated URI family (500 quick / 2000 thorough: bases by stride over the component product, re-cased/permuted variants, one-component-different variants) x all 64 skip-flag values through URICmp/URICmpShort/URIParseCmp/URIRawCmp/URIParamsEq/URIHdrsEq: reflexive, symmetric, result matrix constant on invariance classes, user/pass case-sensitive, user/ttl/method/maddr rule, flag monotonicity, entry points agree incl. handed-back URIs.",
   "Family drawn from component menus with duplicate-free parameter/header lists (as the property requires).", T_E4, "DESIGN.md 3/C15"),
 "C16": C(MC, "GetHdrType/GetMethodNo on every byte string of length 0..3 over all 256 values, all 2^letters case variants of every table name, every one-edit neighbour (insert/substitute over 256 values, delete, transpose) against a map reference; ParseHdrLine's type for token-legal names; method name round trip.",
   "Longer random names are represented by structured variants only.", T_E4, "DESIGN.md 3/C16"),
 "C17": C(MC, "Generated parameter lists (0-2 items quick / 3 thorough from 25 item forms, LWS at every legal gap with <= 2 non-empty, empty items, leading/trailing separators) x 25 modes (separator x terminator x URI-param/URI-hdr x entry point incl. the list wrappers): items, intermediate and final verdict/offset, counts, types by construction; all 256 byte values in name and value positions per mode; GetViaBrSig depends only on the first branch value.",
   "PTokParam.All only required to cover name and value inside the item; zero-item lists asserted for end-of-header/end-of-input only.", T_E4, "DESIGN.md 3/C17"),
 "C18": C(MC, "Every accepted URI of the bounded space (length <= 5/6 after the scheme, plus the C15 family) x source offset {0,9} x target offsets {0,1,7,255,256,limit} x every span 0..len+3 through AdjustOffs (thorough: every target offset for 100 URIs), plus Long/Short/Flat/Truncate.",
   "URI space bounded as stated; relocations thinned for the longest strings (views checked for all).", T_E4, "DESIGN.md 3/C18"),
 "C19": C(MC, "Generated requests (4 methods x all 256 subsets of the 8 fingerprinted headers x orderings x long/compact forms) with fillers in every gap, changed filler values, later repetition of each fingerprinted header, every header capacity 0..N+1 and single cuts: signature by construction and equal to the base variant; replies (incl. status 000), truncation, length and rendering rules.",
   "From-tag class signature is checked metamorphically; all schedules follow from C01.", T_E4, "DESIGN.md 3/C19"),
 "C20": C(MC, "Every string over 1 2 5 6 . x up to length 10 (12 thorough) and over 1 . x up to 16 (18), plus (near-)valid addresses embedded in all surroundings of up to 5 (6) bytes from 1 9 . x, through IP4Prefix / ContainsIP4 / GetCallIDSig against a brute-force substring reference and a reference prefix scanner.",
   "Alphabet and length bound as stated.", T_E4, "DESIGN.md 3/C20"),
}
TODO = {}
props = [json.loads(l) for l in open('/verif/properties.jsonl')]
checks, na = [], []
for p in props:
    i = p['id']
    if i in CLAIMED:
        c = CLAIMED[i]
        checks.append({
          "property_id": i,
          "quick_cmd": f"./run.sh {i} quick",
          "thorough_cmd": f"./run.sh {i} thorough",
          "evidence_file": f"/verif/evidence/{i}.json",
          "replay_cmd_template": "./run.sh replay {path}",
          "engine": "mc",
          "level_claimed": {"category": c["level"], "text": c["text"], "design_ref": c["ref"]},
          "level_note": c["note"],
          "technique": c["technique"],
        })
    else:
        na.append({"property_id": i, "reason": TODO.get(i, "check not built yet in this round (work in progress; model checking applies, see DESIGN.md §3)")})
m = {
 "version": 1,
 "setup_cmd": "./setup.sh",
 "hooks": {"guard": "verif", "enable": "no source hooks: the harness is an external Go module (replace => /repo) reading unexported state via reflect/unsafe; generated overlay files are added with go build -overlay", "baseline_off_cmd": "cd /repo && GOFLAGS=-mod=mod GOPROXY=off GOSUMDB=off GOTOOLCHAIN=local go test -vet=off -count=1 ./...", "source_commits": [], "add_only": True},
 "engines": [{"name": "mc", "path": "/verif/mc", "serves_properties": sorted(CLAIMED), "kind_free_text": "hand-written explicit-state explorers over the real Go functions: E1 prefix-trie explorer with schedule merging, E2 history BFS, E3 interleaving scheduler, E4 bounded product enumeration against reference models"}],
 "checks": checks,
 "not_applicable": na,
 "notes": "All checks rebuild the checker against /repo's working tree (run.sh). Known findings: /verif/known_findings.json.",
}
json.dump(m, open('/verif/MANIFEST.json','w'), indent=1)
print("claimed", len(checks), "not claimed", len(na))
